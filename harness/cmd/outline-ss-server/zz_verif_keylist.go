package main

// Harnesses that call the (unexported) key-list builder directly. Kept in a file of their own:
// if a change renames that function only this file stops compiling and is left out.

import (
	"net/netip"
	"strconv"

	"github.com/Jigsaw-Code/outline-ss-server/service"
)

// C09: a service with many keys, one cipher and secret listed twice far apart: the first id
// listed is the one clients are attributed to
func VH_C09_many_keys_duplicate() {
	verifSchedFirst(1)
	const n = 136
	var sc ServiceConfig
	for i := 0; i < n; i++ {
		sc.Keys = append(sc.Keys, KeyConfig{ID: "id-" + strconv.Itoa(i), Cipher: "chacha20-ietf-poly1305", Secret: "secret-" + strconv.Itoa(i)})
	}
	// the first occurrence late in the list's first part, the second at the start of its last
	// eighth (where a loader that splits the work would look early)
	sc.Keys[16].ID, sc.Keys[16].Secret = "first", "shared"
	sc.Keys[119].ID, sc.Keys[119].Secret = "second", "shared"
	cl, err := newCipherListFromConfig(sc)
	verifSchedFirst(0)
	verifAssert("C09.many-keys.built", err == nil)
	if err != nil {
		return
	}
	first, second, total := 0, 0, 0
	for _, el := range cl.SnapshotForClientIP(netip.Addr{}) {
		switch el.Value.(*service.CipherEntry).ID {
		case "first":
			first++
		case "second":
			second++
		}
		total++
	}
	verifAssert("C09.many-keys.attributed-to-the-first-id-listed", first == 1 && second == 0)
	verifAssert("C09.many-keys.every-other-key-kept", total == n-1)
	verifReach("C09.many-keys.done", true)
}

// C09: medium-sized key lists (13..21 keys) with one cipher and secret repeated: the first id
// listed wins wherever the repeat sits (a de-duplication that reorders the list must keep it)
func VH_C09_repeat_in_medium_list() {
	n := 13 + verifChoice("distinct-keys", 9)
	var sc ServiceConfig
	for i := 0; i < n; i++ {
		sc.Keys = append(sc.Keys, KeyConfig{ID: "id-" + strconv.Itoa(i), Cipher: "chacha20-ietf-poly1305", Secret: "secret-" + strconv.Itoa(i)})
	}
	orig := verifChoice("repeated-key", 3) * (n / 3)                                     // which key is listed again
	at := []int{n, orig + 1 + (n-orig-1)/2, orig + 1}[verifChoice("repeat-position", 3)] // always after the original
	rep := KeyConfig{ID: "later", Cipher: sc.Keys[orig].Cipher, Secret: sc.Keys[orig].Secret}
	keys := append([]KeyConfig{}, sc.Keys[:at]...)
	keys = append(keys, rep)
	keys = append(keys, sc.Keys[at:]...)
	sc.Keys = keys
	cl, err := newCipherListFromConfig(sc)
	verifAssert("C09.medium-list.built", err == nil)
	if err != nil {
		return
	}
	first, later, total := 0, 0, 0
	for _, el := range cl.SnapshotForClientIP(netip.Addr{}) {
		switch el.Value.(*service.CipherEntry).ID {
		case "id-" + strconv.Itoa(orig):
			first++
		case "later":
			later++
		}
		total++
	}
	verifAssert("C09.medium-list.attributed-to-the-first-id-listed", first == 1 && later == 0)
	verifAssert("C09.medium-list.every-other-key-kept", total == n)
	verifReach("C09.medium-list.done", true)
}

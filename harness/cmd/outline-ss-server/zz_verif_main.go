package main

// C09 / C10 / C11 — configuration loading: which keys authenticate on which listeners, reload
// all-or-nothing under faults, retained listeners across reloads. The whole server stack runs
// (runConfig, listener manager, StreamServe, handlers); observation is through a fake
// ServiceMetrics (who authenticated where) and the socket model / real loopback sockets.

import (
	"errors"
	"net"
	"strconv"
	"sync"
	"time"

	"github.com/Jigsaw-Code/outline-sdk/transport/shadowsocks"
	"github.com/Jigsaw-Code/outline-ss-server/service"
	"github.com/Jigsaw-Code/outline-ss-server/service/metrics"
)

// ---- scripted config source (models os.ReadFile + yaml.Unmarshal) ----

type verifCfgStep struct {
	readErr, parseErr bool
	cfg               Config
}

var (
	verifCfgNext *verifCfgStep
)

func verifReadFile(name string) ([]byte, error) {
	if verifCfgNext.readErr {
		return nil, errors.New("injected read fault")
	}
	// the "file": a text that is the same for the same configuration and differs otherwise
	return []byte(verifCfgText(&verifCfgNext.cfg)), nil
}

func verifCfgText(c *Config) string {
	t := "services:\n"
	for _, sc := range c.Services {
		t += " - listeners:\n"
		for _, l := range sc.Listeners {
			t += "    - " + string(l.Type) + " " + l.Address + "\n"
		}
		t += "   keys:\n"
		for _, k := range sc.Keys {
			t += "    - " + k.ID + " " + k.Cipher + " " + k.Secret + "\n"
		}
	}
	t += "keys:\n"
	for _, k := range c.Keys {
		t += " - " + k.ID + " " + strconv.Itoa(k.Port) + " " + k.Cipher + " " + k.Secret + "\n"
	}
	return t
}

// as yaml.Unmarshal does: only the sections present in the document are assigned (an absent
// section leaves the destination's field as it was), and a document with a type error further
// down has still filled in what decoded before the error is returned
func verifYAMLUnmarshal(data []byte, out any) error {
	c := out.(*Config)
	// (the decoder builds fresh values: nothing is shared with the script the harness compares against)
	if verifCfgNext.cfg.Services != nil {
		c.Services = make([]ServiceConfig, len(verifCfgNext.cfg.Services))
		for i, sc := range verifCfgNext.cfg.Services {
			c.Services[i].Listeners = append([]ListenerConfig(nil), sc.Listeners...)
			c.Services[i].Keys = append([]KeyConfig(nil), sc.Keys...)
		}
	}
	if verifCfgNext.cfg.Keys != nil {
		c.Keys = append([]LegacyKeyServiceConfig(nil), verifCfgNext.cfg.Keys...)
	}
	if verifCfgNext.parseErr {
		return errors.New("injected parse fault")
	}
	return nil
}

// ---- fake service metrics: who authenticated on which local address ----

type verifEvent struct {
	proto string
	local string
	id    string
	auth  bool
	probe bool
}

type verifSvcMetrics struct {
	mu     sync.Mutex
	events []*verifEvent
}

type verifTCPConnM struct {
	m  *verifSvcMetrics
	ev *verifEvent
}

func (c *verifTCPConnM) AddAuthenticated(accessKey string) {
	c.m.mu.Lock()
	c.ev.auth, c.ev.id = true, accessKey
	c.m.mu.Unlock()
}
func (c *verifTCPConnM) AddClosed(status string, data metrics.ProxyMetrics, duration time.Duration) {}
func (c *verifTCPConnM) AddProbe(status, drainResult string, clientProxyBytes int64) {
	c.m.mu.Lock()
	c.ev.probe = true
	c.m.mu.Unlock()
}

type verifUDPConnM struct{}

func (verifUDPConnM) AddPacketFromClient(status string, a, b int64) {}
func (verifUDPConnM) AddPacketFromTarget(status string, a, b int64) {}
func (verifUDPConnM) RemoveNatEntry()                               {}

func (m *verifSvcMetrics) AddOpenTCPConnection(conn net.Conn) service.TCPConnMetrics {
	ev := &verifEvent{proto: "tcp", local: strconv.Itoa(conn.LocalAddr().(*net.TCPAddr).Port)}
	m.mu.Lock()
	m.events = append(m.events, ev)
	m.mu.Unlock()
	return &verifTCPConnM{m, ev}
}
func (m *verifSvcMetrics) AddUDPNatEntry(clientAddr net.Addr, accessKey string) service.UDPConnMetrics {
	ev := &verifEvent{proto: "udp", local: strconv.Itoa(clientAddr.(*net.UDPAddr).Port), id: accessKey, auth: true}
	m.mu.Lock()
	m.events = append(m.events, ev)
	m.mu.Unlock()
	return verifUDPConnM{}
}
func (m *verifSvcMetrics) AddCipherSearch(proto string, accessKeyFound bool, timeToCipher time.Duration) {
}

func (m *verifSvcMetrics) last(proto, local string) *verifEvent {
	m.mu.Lock()
	defer m.mu.Unlock()
	for i := len(m.events) - 1; i >= 0; i-- {
		if m.events[i].proto == proto && m.events[i].local == local {
			return m.events[i]
		}
	}
	return nil
}

// ---- keys ----

type verifK struct {
	cipher, secret string
}

var verifKeys = []verifK{{"chacha20-ietf-poly1305", "s1"}, {"aes-128-gcm", "s1"}, {"chacha20-ietf-poly1305", "s2"}}

type verifBuf struct{ b []byte }

func (w *verifBuf) Write(p []byte) (int, error) { w.b = append(w.b, p...); return len(p), nil }

func verifHandshake(k verifK) []byte { return verifHandshakeN(k, 0) }

// verifHandshakeN: the n-th distinct handshake of key k (distinct fixed salts)
func verifHandshakeN(k verifK, n int) []byte {
	key, err := shadowsocks.NewEncryptionKey(k.cipher, k.secret)
	if err != nil {
		panic(err)
	}
	buf := &verifBuf{}
	w := shadowsocks.NewWriter(buf, key)
	// a fixed client salt: a random one carries the server's 32-bit mark with probability 2^-32,
	// which the symbolic run would explore as a reflected-replay refusal
	w.SetSaltGenerator(verifFixedSalt{n})
	w.Write([]byte{1, 93, 184, 216, 34, 0, 80, 'x'})
	return buf.b
}

type verifFixedSalt struct{ n int }

func (f verifFixedSalt) GetSalt(salt []byte) error {
	for i := range salt {
		salt[i] = byte(7*i + 3 + 31*f.n)
	}
	return nil
}

func verifDatagram(k verifK) []byte {
	key, err := shadowsocks.NewEncryptionKey(k.cipher, k.secret)
	if err != nil {
		panic(err)
	}
	pt := []byte{1, 93, 184, 216, 34, 0, 53, 'q'}
	buf := make([]byte, key.SaltSize()+len(pt)+16)
	out, err := shadowsocks.Pack(buf, pt, key)
	if err != nil {
		panic(err)
	}
	return out
}

var verifUDPClientPort = 30000

// probeTCP: connect to 127.0.0.1:port with key k. Returns listening, authenticated, id.
func verifProbeTCP(sm *verifSvcMetrics, port int, k verifK) (bool, bool, string) {
	id := verifDialTCP(&net.TCPAddr{IP: net.IPv4(127, 0, 0, 1), Port: port})
	if id < 0 {
		return false, false, ""
	}
	verifTCPSend(id, verifHandshake(k))
	verifTCPCloseWrite(id)
	verifQuiesce()
	ev := sm.last("tcp", strconv.Itoa(port))
	if ev == nil {
		return true, false, ""
	}
	sm.mu.Lock()
	defer sm.mu.Unlock()
	// consume the event so that a later probe of the same port sees its own
	ev.local = "consumed"
	return true, ev.auth, ev.id
}

func verifProbeUDP(sm *verifSvcMetrics, address string, k verifK) (bool, bool, string) {
	verifUDPClientPort++
	from := &net.UDPAddr{IP: net.IPv4(198, 51, 100, 7), Port: verifUDPClientPort}
	if !service.VerifInjectUDP(address, verifDatagram(k), from) {
		return false, false, ""
	}
	verifQuiesce()
	ev := sm.last("udp", strconv.Itoa(verifUDPClientPort))
	if ev == nil {
		return true, false, ""
	}
	return true, ev.auth, ev.id
}

func verifNewServer(sm *verifSvcMetrics) *OutlineServer { return verifNewServerHistory(sm, 0) }

func verifNewServerHistory(sm *verifSvcMetrics, history int) *OutlineServer {
	service.VerifResetPackets()
	return &OutlineServer{
		lnManager:      service.NewListenerManager(),
		natTimeout:     defaultNatTimeout,
		serverMetrics:  newPrometheusServerMetrics(),
		serviceMetrics: sm,
		replayCache:    service.NewReplayCache(history),
	}
}

func verifLoadCfg(s *OutlineServer, step *verifCfgStep) error {
	verifCfgNext = step
	err := s.loadConfig("config.yml")
	verifQuiesce()
	return err
}

// ---- expected behaviour of a configuration ----

type verifLn struct {
	tcp  bool
	port int
}

func (l verifLn) addr() string { return "127.0.0.1:" + strconv.Itoa(l.port) }

// expectation: key k on listener l of cfg authenticates as id, or not at all
func verifExpect(cfg *Config, l verifLn, k verifK) (bool, string) {
	for _, svc := range cfg.Services {
		owns := false
		for _, lc := range svc.Listeners {
			if lc.Address == l.addr() && (lc.Type == listenerTypeTCP) == l.tcp {
				owns = true
			}
		}
		if !owns {
			continue
		}
		for _, kc := range svc.Keys {
			if kc.Cipher == k.cipher && kc.Secret == k.secret {
				return true, kc.ID // the first one listed
			}
		}
		return false, ""
	}
	return false, ""
}

func verifListening(cfg *Config, l verifLn) bool {
	for _, svc := range cfg.Services {
		for _, lc := range svc.Listeners {
			if lc.Address == l.addr() && (lc.Type == listenerTypeTCP) == l.tcp {
				return true
			}
		}
	}
	return false
}

// the services view of a configuration: each legacy port is a service of its own with a TCP and
// a UDP listener on that port and the keys listed for it
func verifEquivalent(cfg *Config) *Config {
	if len(cfg.Keys) == 0 {
		return cfg
	}
	eq := &Config{Services: append([]ServiceConfig{}, cfg.Services...)}
	var ports []int
	for _, k := range cfg.Keys {
		seen := false
		for _, p := range ports {
			seen = seen || p == k.Port
		}
		if !seen {
			ports = append(ports, k.Port)
		}
	}
	for _, port := range ports {
		var sc ServiceConfig
		sc.Listeners = []ListenerConfig{{listenerTypeTCP, "127.0.0.1:" + strconv.Itoa(port)}, {listenerTypeUDP, "127.0.0.1:" + strconv.Itoa(port)}}
		for _, k := range cfg.Keys {
			if k.Port == port {
				sc.Keys = append(sc.Keys, k.KeyConfig)
			}
		}
		eq.Services = append(eq.Services, sc)
	}
	return eq
}

// checks that the running server behaves exactly like cfg on all candidate listeners and keys
func verifCheckState(tag string, sm *verifSvcMetrics, cfg *Config, lns []verifLn, keys []verifK) {
	cfg = verifEquivalent(cfg)
	for _, l := range lns {
		want := verifListening(cfg, l)
		for _, k := range keys {
			var up, auth bool
			var id string
			if l.tcp {
				up, auth, id = verifProbeTCP(sm, l.port, k)
			} else {
				up, auth, id = verifProbeUDP(sm, l.addr(), k)
				if !up {
					// a legacy port is bound on every address
					up, auth, id = verifProbeUDP(sm, ":"+strconv.Itoa(l.port), k)
				}
			}
			verifAssert(tag+".listening-iff-configured", up == want)
			if !up {
				continue
			}
			wantAuth, wantID := verifExpect(cfg, l, k)
			verifAssert(tag+".authenticates-iff-owner-has-key", auth == wantAuth)
			if auth && wantAuth {
				verifAssert(tag+".attributed-to-configured-id", id == wantID)
			}
		}
	}
}

func verifSvc(lns []verifLn, keys ...KeyConfig) ServiceConfig {
	var sc ServiceConfig
	for _, l := range lns {
		t := listenerTypeUDP
		if l.tcp {
			t = listenerTypeTCP
		}
		sc.Listeners = append(sc.Listeners, ListenerConfig{Type: t, Address: l.addr()})
	}
	sc.Keys = keys
	return sc
}

func verifKC(id string, k verifK) KeyConfig {
	return KeyConfig{ID: id, Cipher: k.cipher, Secret: k.secret}
}

var (
	verifL1T = verifLn{true, 9201}
	verifL1U = verifLn{false, 9201}
	verifL2T = verifLn{true, 9202}
	verifL2U = verifLn{false, 9202}
	verifL3T = verifLn{true, 9203}
)

// C09: two services; keys of one never work on the other's listeners; duplicates keep the first id
func VH_C09_services() {
	sm := &verifSvcMetrics{}
	s := verifNewServer(sm)
	a := verifSvc([]verifLn{verifL1T, verifL1U}, verifKC("a-1", verifKeys[0]))
	switch verifChoice("a-keys", 3) {
	case 1:
		a.Keys = append(a.Keys, verifKC("a-dup", verifKeys[0])) // same cipher and secret again
	case 2:
		a.Keys = append(a.Keys, verifKC("a-2", verifKeys[1]))
	}
	b := verifSvc([]verifLn{verifL2T}, verifKC("b-1", verifKeys[verifChoice("b-key", 3)]))
	if verifFlag("b-udp") {
		b.Listeners = append(b.Listeners, ListenerConfig{Type: listenerTypeUDP, Address: verifL2U.addr()})
	}
	cfg := Config{Services: []ServiceConfig{a, b}}
	err := verifLoadCfg(s, &verifCfgStep{cfg: cfg})
	verifAssert("C09.load-ok", err == nil)
	verifCheckState("C09", sm, &cfg, []verifLn{verifL1T, verifL1U, verifL2T, verifL2U}, verifKeys)
	// the same again: what the first round left behind (last client address per key, order of
	// the key list) changes nothing
	verifCheckState("C09.second-round", sm, &cfg, []verifLn{verifL1T, verifL1U, verifL2T, verifL2U}, verifKeys)
	// one client address using the keys of a service in turn: each key keeps authenticating
	turns := 0
	for round := 0; round < 2; round++ {
		for _, k := range verifKeys[:2] {
			want, wantID := verifExpect(&cfg, verifL1T, k)
			up, auth, id := verifProbeTCP(sm, verifL1T.port, k)
			turns++
			verifAssert("C09.keys-in-turn.tcp", up && auth == want && (!auth || id == wantID))
		}
	}
	for round := 0; round < 2; round++ {
		for _, k := range verifKeys[:2] {
			want, wantID := verifExpect(&cfg, verifL1U, k)
			up, auth, id := verifProbeUDP(sm, verifL1U.addr(), k)
			verifAssert("C09.keys-in-turn.udp", up && auth == want && (!auth || id == wantID))
		}
	}
	// every accepted TCP connection was reported opened exactly once
	opened := 0
	sm.mu.Lock()
	for _, ev := range sm.events {
		if ev.proto == "tcp" {
			opened++
		}
	}
	sm.mu.Unlock()
	verifAssert("C15.opened-once-per-connection", opened == 2*2*len(verifKeys)+turns)
	verifAssert("C09.stop-ok", s.Stop() == nil)
	verifQuiesce()
	verifReach("C09.done", true)
}

// C09 legacy format: keys grouped by port, TCP and UDP on each port
func VH_C09_legacy() {
	sm := &verifSvcMetrics{}
	s := verifNewServer(sm)
	cfg := Config{Keys: []LegacyKeyServiceConfig{
		{KeyConfig: verifKC("p1-a", verifKeys[0]), Port: 9201},
		{KeyConfig: verifKC("p2-a", verifKeys[verifChoice("p2-key", 3)]), Port: 9202},
	}}
	if verifFlag("second-on-p1") {
		cfg.Keys = append(cfg.Keys, LegacyKeyServiceConfig{KeyConfig: verifKC("p1-b", verifKeys[1]), Port: 9201})
	}
	err := verifLoadCfg(s, &verifCfgStep{cfg: cfg})
	verifAssert("C09.legacy.load-ok", err == nil)
	// the equivalent services view of the legacy config, for the oracle
	eq := Config{}
	for _, port := range []int{9201, 9202} {
		var sc ServiceConfig
		sc.Listeners = []ListenerConfig{{listenerTypeTCP, "127.0.0.1:" + strconv.Itoa(port)}, {listenerTypeUDP, "127.0.0.1:" + strconv.Itoa(port)}}
		for _, k := range cfg.Keys {
			if k.Port == port {
				sc.Keys = append(sc.Keys, k.KeyConfig)
			}
		}
		eq.Services = append(eq.Services, sc)
	}
	for _, l := range []verifLn{verifL1T, verifL2T} {
		for _, k := range verifKeys {
			up, auth, id := verifProbeTCP(sm, l.port, k)
			verifAssert("C09.legacy.listening", up)
			wantAuth, wantID := verifExpect(&eq, l, k)
			verifAssert("C09.legacy.authenticates-iff-port-has-key", auth == wantAuth)
			if auth && wantAuth {
				verifAssert("C09.legacy.attributed", id == wantID)
			}
		}
	}
	for _, port := range []int{9201, 9202} {
		for _, k := range verifKeys {
			up, auth, id := verifProbeUDP(sm, ":"+strconv.Itoa(port), k)
			verifAssert("C09.legacy.udp-listening", up)
			wantAuth, wantID := verifExpect(&eq, verifLn{false, port}, k)
			verifAssert("C09.legacy.udp-authenticates-iff-port-has-key", auth == wantAuth)
			if auth && wantAuth {
				verifAssert("C09.legacy.udp-attributed", id == wantID)
			}
		}
	}
	verifAssert("C09.legacy.stop-ok", s.Stop() == nil)
	verifQuiesce()
	verifReach("C09.legacy.done", true)
}

// C10: a reload that fails at any stage leaves the previous configuration serving unchanged and
// nothing of the failed one running; a later successful reload fully replaces it
func VH_C10_reload() {
	sm := &verifSvcMetrics{}
	s := verifNewServer(sm)
	g1 := Config{Services: []ServiceConfig{verifSvc([]verifLn{verifL1T, verifL1U}, verifKC("g1", verifKeys[0]))}}
	verifAssert("C10.first-load-ok", verifLoadCfg(s, &verifCfgStep{cfg: g1}) == nil)
	all := []verifLn{verifL1T, verifL1U, verifL2T, verifL2U, verifL3T, {true, 9204}, {false, 9204}}

	// the failing configuration: new key, new listeners, and one fault
	bad := Config{Services: []ServiceConfig{
		verifSvc([]verifLn{verifL1T, verifL2T}, verifKC("bad-1", verifKeys[1])),
		verifSvc([]verifLn{verifL2U, verifL3T}, verifKC("bad-2", verifKeys[2])),
	}}
	step := &verifCfgStep{cfg: bad}
	var blocker *net.TCPListener
	fault := verifChoice("fault", 10)
	switch fault {
	case 0:
		step.readErr = true
	case 1:
		step.parseErr = true
	case 2:
		step.cfg.Services[1].Listeners[0].Type = "quic" // validation error
	case 3:
		step.cfg.Services[0].Keys[0].Cipher = "rot13" // bad cipher in the first service
	case 4:
		step.cfg.Services[1].Keys[0].Cipher = "rot13" // bad cipher in the second service (first already started)
	case 5:
		// the last TCP address cannot be bound (everything before it was already started)
		blocker, _ = net.ListenTCP("tcp", &net.TCPAddr{IP: net.IPv4(127, 0, 0, 1), Port: 9203})
	case 6:
		service.VerifOccupyPacket(verifL2U.addr())
	case 9:
		// the first service keeps the running configuration's listeners and changes their key;
		// a later service is bad: nothing of this file may take effect
		step.cfg.Services[0] = verifSvc([]verifLn{verifL1T, verifL1U}, verifKC("bad-1", verifKeys[1]))
		step.cfg.Services[1].Keys[0].Cipher = "rot13"
	case 8:
		// a legacy key whose port is out of range (it must not wrap around to a valid port)
		step.cfg.Keys = append(step.cfg.Keys, LegacyKeyServiceConfig{KeyConfig: verifKC("legacy", verifKeys[0]), Port: 65536 + 9204})
	case 7:
		// a key with a bad cipher that shares its secret with a good key of the same service
		step.cfg.Services[1].Keys = append(step.cfg.Services[1].Keys, KeyConfig{ID: "bad-3", Cipher: "rot13", Secret: verifKeys[2].secret})
	}
	err := verifLoadCfg(s, step)
	verifAssert("C10.bad-reload-reports-error", err != nil)
	if blocker != nil {
		blocker.Close()
	}
	if fault == 6 {
		service.VerifReleasePacket(verifL2U.addr())
	}
	// still exactly g1; in particular nothing of the failed configuration is listening
	verifCheckState("C10.after-failed-reload", sm, &g1, all, verifKeys)
	if fault == 5 || fault == 6 {
		// the obstacle is gone: the very same file now loads and is served completely
		verifAssert("C10.same-file-loads-once-the-address-is-free", verifLoadCfg(s, &verifCfgStep{cfg: bad}) == nil)
		verifCheckState("C10.after-retry-of-the-same-file", sm, &bad, all, verifKeys)
		verifReach("C10.same-file-retried", true)
	}
	verifAssert("C10.failed-generation-not-running", verifBlockedIn("runConfig") <= 1)
	verifReach("C10.failed-reload-checked", true)

	// a later good reload replaces g1 completely (it also uses addresses the failed one tried)
	g3 := Config{Services: []ServiceConfig{verifSvc([]verifLn{verifL2T, verifL1U, verifL3T, verifL2U}, verifKC("g3", verifKeys[2]))}}
	verifAssert("C10.good-reload-ok", verifLoadCfg(s, &verifCfgStep{cfg: g3}) == nil)
	verifCheckState("C10.after-good-reload", sm, &g3, all, verifKeys)
	// and another one drops those addresses again
	g4 := Config{Services: []ServiceConfig{verifSvc([]verifLn{verifL1T}, verifKC("g4", verifKeys[0]))}}
	verifAssert("C10.second-good-reload-ok", verifLoadCfg(s, &verifCfgStep{cfg: g4}) == nil)
	verifCheckState("C10.after-second-good-reload", sm, &g4, all, verifKeys)
	// (C09 after a history of reloads: who authenticates where is decided by the loaded configuration alone)
	verifCheckState("C09.after-reloads", sm, &g4, all[:5], verifKeys)
	verifAssert("C10.stop-ok", s.Stop() == nil)
	verifQuiesce()
	verifCheckState("C10.after-stop", sm, &Config{}, all, verifKeys[:1])
	verifAssert("C10.nothing-running-after-stop", verifBlockedIn("runConfig") == 0 && verifBlockedIn("StreamServe") == 0)
	verifReach("C10.done", true)
}

// C11: an address present in the old and the new configuration stays bound across the reload;
// a connection that arrives around the reload is handled by exactly one generation and a key
// present in both authenticates; a connection accepted before the reload is still served by
// its generation afterwards
func VH_C11_retain() {
	sm := &verifSvcMetrics{}
	s := verifNewServer(sm)
	g1 := Config{Services: []ServiceConfig{verifSvc([]verifLn{verifL1T, verifL1U}, verifKC("old", verifKeys[0]))}}
	g2 := Config{Services: []ServiceConfig{
		verifSvc([]verifLn{verifL1T, verifL1U}, verifKC("new", verifKeys[0]), verifKC("extra", verifKeys[2])),
		verifSvc([]verifLn{verifL2T}, verifKC("other", verifKeys[1])),
	}}
	after := []verifLn{verifL1T, verifL1U, verifL2T}
	switch verifChoice("new-config-shape", 4) {
	case 3:
		// the other service keeps its address but is left without any key: the address stays
		// bound (connections to it are absorbed as probes, not refused)
		g2.Services[1].Keys = nil
	case 1:
		// the new configuration lists the retained key a second time, under another id
		g2.Services[0].Keys = append(g2.Services[0].Keys, verifKC("new-alias", verifKeys[0]))
	case 2:
		// the retained service gains further listeners of the same types, after the retained ones
		g2.Services[0] = verifSvc([]verifLn{verifL1T, verifL1U, verifL3T, verifL2U}, verifKC("new", verifKeys[0]), verifKC("extra", verifKeys[2]))
		after = append(after, verifL3T, verifL2U)
	}
	verifAssert("C11.first-load-ok", verifLoadCfg(s, &verifCfgStep{cfg: g1}) == nil)
	gen0 := service.VerifPacketSocketGen(verifL1U.addr())
	// a client connects before the reload and stays silent until after it
	early := verifDialTCP(&net.TCPAddr{IP: net.IPv4(127, 0, 0, 1), Port: 9201})
	verifAssert("C11.early-accepted", early >= 0)
	verifQuiesce()
	// another client arrives while the reload runs
	var wg sync.WaitGroup
	mid := -1
	wg.Add(1)
	go func() {
		defer wg.Done()
		mid = verifDialTCP(&net.TCPAddr{IP: net.IPv4(127, 0, 0, 1), Port: 9201})
		if mid >= 0 {
			verifTCPSend(mid, verifHandshake(verifKeys[0]))
			verifTCPCloseWrite(mid)
		}
	}()
	verifAssert("C11.reload-ok", verifLoadCfg(s, &verifCfgStep{cfg: g2}) == nil)
	wg.Wait()
	verifQuiesce()
	verifAssert("C11.never-refused", mid >= 0)
	verifAssert("C11.socket-never-rebound", service.VerifPacketSocketGen(verifL1U.addr()) == gen0)
	verifAssert("C11.tcp-socket-never-rebound", verifTCPListenCount(9201) <= 1)
	// the mid-reload connection was handled once and authenticated (by either generation)
	n, auth, id := 0, false, ""
	sm.mu.Lock()
	for _, ev := range sm.events {
		if ev.proto == "tcp" && ev.local == "9201" && (ev.auth || ev.probe) {
			n++
			auth, id = ev.auth, ev.id
			ev.local = "consumed"
		}
	}
	sm.mu.Unlock()
	verifAssert("C11.mid-reload-handled-exactly-once", n == 1)
	verifAssert("C11.mid-reload-authenticated", auth && (id == "old" || id == "new"))
	verifReach("C11.mid-reload-old-generation", id == "old")
	// the early connection is still alive and served by the generation that accepted it
	verifAssert("C11.early-not-closed-by-reload", !verifTCPPeerClosed(early))
	verifTCPSend(early, verifHandshake(verifKeys[0]))
	verifTCPCloseWrite(early)
	verifQuiesce()
	n, auth, id = 0, false, ""
	sm.mu.Lock()
	for _, ev := range sm.events {
		if ev.proto == "tcp" && ev.local == "9201" && (ev.auth || ev.probe) {
			n++
			auth, id = ev.auth, ev.id
			ev.local = "consumed"
		}
	}
	sm.mu.Unlock()
	verifAssert("C11.early-served-after-reload", n == 1 && auth && id == "old")
	// new connections get the new configuration
	verifCheckState("C11.after-reload", sm, &g2, after, verifKeys)
	verifAssert("C11.stop-ok", s.Stop() == nil)
	verifQuiesce()
	verifReach("C11.done", true)
}

// the overlap window of a reload, taken apart: new configuration started, old one not yet
// stopped. A connection arriving then is handled exactly once, authenticates with a key present
// in both, and the shared sockets are neither closed nor re-created at any point.
func VH_C11_overlap() {
	sm := &verifSvcMetrics{}
	s := verifNewServer(sm)
	g1 := Config{Services: []ServiceConfig{verifSvc([]verifLn{verifL1T, verifL1U}, verifKC("old", verifKeys[0]))}}
	g2 := Config{Services: []ServiceConfig{verifSvc([]verifLn{verifL1T, verifL1U}, verifKC("new", verifKeys[0]))}}
	verifAssert("C11.overlap.first-load-ok", verifLoadCfg(s, &verifCfgStep{cfg: g1}) == nil)
	gen0 := service.VerifPacketSocketGen(verifL1U.addr())
	stop2, err := s.runConfig(g2)
	verifAssert("C11.overlap.second-started", err == nil)
	verifQuiesce()
	for i := 0; i < 2; i++ {
		up, auth, id := verifProbeTCP(sm, 9201, verifKeys[0])
		verifAssert("C11.overlap.tcp-served", up && auth && (id == "old" || id == "new"))
		up, auth, id = verifProbeUDP(sm, verifL1U.addr(), verifKeys[0])
		verifAssert("C11.overlap.udp-served", up && auth && (id == "old" || id == "new"))
	}
	n := 0
	sm.mu.Lock()
	for _, ev := range sm.events {
		if ev.proto == "tcp" {
			n++
		}
	}
	sm.mu.Unlock()
	verifAssert("C11.overlap.each-connection-handled-once", n == 2)
	nu := 0
	sm.mu.Lock()
	for _, ev := range sm.events {
		if ev.proto == "udp" {
			nu++
		}
	}
	sm.mu.Unlock()
	verifAssert("C11.overlap.each-datagram-handled-once", nu == 2)
	verifAssert("C11.overlap.old-stop-ok", s.Stop() == nil)
	s.stopConfig = stop2
	verifQuiesce()
	verifAssert("C11.overlap.socket-kept", service.VerifPacketSocketGen(verifL1U.addr()) == gen0 && verifTCPListenCount(9201) <= 1)
	up, auth, id := verifProbeTCP(sm, 9201, verifKeys[0])
	verifAssert("C11.overlap.new-generation-serves", up && auth && id == "new")
	verifAssert("C11.overlap.stop-ok", s.Stop() == nil)
	verifQuiesce()
	verifReach("C11.overlap.done", true)
}

// sends handshake number n of key k to 127.0.0.1:port; returns (served, refused-as-probe)
func verifPresent(sm *verifSvcMetrics, port int, k verifK, n int) (bool, bool) {
	id := verifDialTCP(&net.TCPAddr{IP: net.IPv4(127, 0, 0, 1), Port: port})
	if id < 0 {
		return false, false
	}
	verifTCPSend(id, verifHandshakeN(k, n))
	verifTCPCloseWrite(id)
	verifQuiesce()
	ev := sm.last("tcp", strconv.Itoa(port))
	if ev == nil {
		return false, false
	}
	sm.mu.Lock()
	defer sm.mu.Unlock()
	ev.local = "consumed"
	return ev.auth, ev.probe
}

// C07 (wiring): one replay history for the whole process — a handshake served on one service is
// refused on another service sharing the key and after configuration reloads, also once the
// history has rotated
func VH_C07_process_wide() {
	sm := &verifSvcMetrics{}
	const history = 2
	s := verifNewServerHistory(sm, history)
	// the services' listener lists in any shape and order (TCP only, TCP then UDP, UDP then TCP)
	shapes := [][2][]verifLn{
		{{verifL1T}, {verifL2T}},
		{{verifL1T, verifL1U}, {verifL2U, verifL2T}},
		{{verifL1U, verifL1T}, {verifL2T}},
		{{verifL1U, verifL1T}, {verifL2U, verifL2T}},
	}[verifChoice("listener-shapes", 4)]
	cfg := Config{Services: []ServiceConfig{
		// the same access key (id, cipher, secret) offered by two services
		verifSvc(shapes[0], verifKC("shared", verifKeys[0])),
		verifSvc(shapes[1], verifKC("shared", verifKeys[0])),
	}}
	verifAssert("C07.wide.load-ok", verifLoadCfg(s, &verifCfgStep{cfg: cfg}) == nil)
	n := 0
	fillers := verifChoice("fillers", history+2) // 0..history+1 earlier handshakes (rotation or not)
	for i := 0; i < fillers; i++ {
		n++
		served, _ := verifPresent(sm, 9201+i%2, verifKeys[0], n)
		verifAssert("C07.wide.filler-served", served)
	}
	n++
	served, _ := verifPresent(sm, 9201, verifKeys[0], n)
	verifAssert("C07.wide.first-presentation-served", served)
	served, probe := verifPresent(sm, 9202, verifKeys[0], n)
	verifAssert("C07.wide.replay-on-other-service-refused", !served && probe)
	n++
	served, _ = verifPresent(sm, 9202, verifKeys[0], n)
	verifAssert("C07.wide.second-handshake-served", served)
	verifAssert("C07.wide.reload-ok", verifLoadCfg(s, &verifCfgStep{cfg: cfg}) == nil)
	served, probe = verifPresent(sm, 9201, verifKeys[0], n)
	verifAssert("C07.wide.replay-after-reload-refused", !served && probe)
	verifAssert("C07.wide.stop-ok", s.Stop() == nil)
	verifQuiesce()
	verifReach("C07.wide.rotated", fillers >= history)
}

// C09: two services whose listener addresses are different spellings of one socket address.
// Either the configuration is refused as a whole, or the services stay separate; in no case may
// a key of one service authenticate on the other's listener.
func VH_C09_same_socket_two_spellings() {
	sm := &verifSvcMetrics{}
	s := verifNewServer(sm)
	a := verifSvc([]verifLn{verifL1T, verifL1U}, verifKC("a-1", verifKeys[0]))
	b := ServiceConfig{Keys: []KeyConfig{verifKC("b-1", verifKeys[1])}}
	spell := []string{"[::ffff:127.0.0.1]:9201", "[::ffff:7f00:1]:9201", "127.0.0.1:09201"}[verifChoice("spelling", 3)]
	b.Listeners = []ListenerConfig{{Type: listenerTypeTCP, Address: spell}}
	if verifFlag("udp-too") {
		b.Listeners = append(b.Listeners, ListenerConfig{Type: listenerTypeUDP, Address: spell})
	}
	cfg := Config{Services: []ServiceConfig{a, b}}
	err := verifLoadCfg(s, &verifCfgStep{cfg: cfg})
	for rep := 0; rep < verifRepeat(6); rep++ { // natively which service accepts next is a matter of timing
		for _, k := range verifKeys {
			up, auth, id := verifProbeTCP(sm, 9201, k)
			if err != nil {
				verifAssert("C09.spellings.refused-config-not-serving", !up)
				continue
			}
			if up && auth {
				// on 127.0.0.1:9201 (service a's listener as written) only service a's key may work
				verifAssert("C09.spellings.no-cross-service-authentication", id == "a-1" && k == verifKeys[0])
			}
		}
	}
	if err == nil {
		verifAssert("C09.spellings.stop-ok", s.Stop() == nil)
	}
	verifQuiesce()
	verifReach("C09.spellings.refused", err != nil)
}

// C10: unusual spellings of the listener type. Whatever the loader decides, the outcome is one
// of the two the property allows: the reload fails and the previous configuration keeps serving,
// or it succeeds and every listener of the new configuration is serving.
func VH_C10_listener_type_spellings() {
	sm := &verifSvcMetrics{}
	s := verifNewServer(sm)
	g1 := Config{Services: []ServiceConfig{verifSvc([]verifLn{verifL1T, verifL1U}, verifKC("g1", verifKeys[0]))}}
	verifAssert("C10.spellings.first-load-ok", verifLoadCfg(s, &verifCfgStep{cfg: g1}) == nil)
	all := []verifLn{verifL1T, verifL1U, verifL2T, verifL2U, verifL3T}
	type spelling struct {
		written ListenerType
		means   ListenerType // "" = not a listener type under any reading
	}
	spellings := []spelling{{"TCP", "tcp"}, {"Udp", "udp"}, {"tcp ", ""}, {"", ""}, {"tcp4", ""}, {"UDP", "udp"}}
	sp := spellings[verifChoice("spelling", len(spellings))]
	cfg := Config{Services: []ServiceConfig{{
		Listeners: []ListenerConfig{{Type: sp.written, Address: verifL2T.addr()}, {Type: listenerTypeUDP, Address: verifL1U.addr()}, {Type: listenerTypeTCP, Address: verifL3T.addr()}},
		Keys:      []KeyConfig{verifKC("n1", verifKeys[1])},
	}}}
	err := verifLoadCfg(s, &verifCfgStep{cfg: cfg})
	if err != nil {
		verifCheckState("C10.spellings.after-failed-reload", sm, &g1, all, verifKeys)
		verifReach("C10.spellings.refused", true)
	} else {
		verifAssert("C10.spellings.accepted-type-is-a-listener-type", sp.means != "")
		norm := cfg
		norm.Services = []ServiceConfig{cfg.Services[0]}
		norm.Services[0].Listeners = append([]ListenerConfig{}, cfg.Services[0].Listeners...)
		norm.Services[0].Listeners[0].Type = sp.means
		verifCheckState("C10.spellings.after-accepted-reload", sm, &norm, all, verifKeys)
	}
	verifAssert("C10.spellings.stop-ok", s.Stop() == nil)
	verifQuiesce()
	verifReach("C10.spellings.done", true)
}

// C11: a reload that fails (here: another listener of the new configuration cannot be bound)
// does not disturb the addresses the old configuration keeps serving: they stay bound on the
// same sockets, connections are not refused and keys keep authenticating
func VH_C11_failed_reload_keeps_bindings() {
	sm := &verifSvcMetrics{}
	s := verifNewServer(sm)
	g1 := Config{Services: []ServiceConfig{verifSvc([]verifLn{verifL1T, verifL1U}, verifKC("old", verifKeys[0]))}}
	verifAssert("C11.failed-reload.first-load-ok", verifLoadCfg(s, &verifCfgStep{cfg: g1}) == nil)
	gen0 := service.VerifPacketSocketGen(verifL1U.addr())
	early := verifDialTCP(&net.TCPAddr{IP: net.IPv4(127, 0, 0, 1), Port: 9201})
	verifAssert("C11.failed-reload.early-accepted", early >= 0)
	verifQuiesce()
	g2 := Config{Services: []ServiceConfig{
		verifSvc([]verifLn{verifL1T, verifL1U}, verifKC("old", verifKeys[0])),
		verifSvc([]verifLn{verifL3T, verifL2U}, verifKC("extra", verifKeys[2])),
	}}
	var blocker *net.TCPListener
	tcpBusy := verifFlag("tcp-address-busy")
	if tcpBusy {
		blocker, _ = net.ListenTCP("tcp", &net.TCPAddr{IP: net.IPv4(127, 0, 0, 1), Port: 9203})
	} else {
		service.VerifOccupyPacket(verifL2U.addr())
	}
	verifAssert("C11.failed-reload.reports-error", verifLoadCfg(s, &verifCfgStep{cfg: g2}) != nil)
	if blocker != nil {
		blocker.Close()
	} else {
		service.VerifReleasePacket(verifL2U.addr())
	}
	verifAssert("C11.failed-reload.udp-socket-never-rebound", service.VerifPacketSocketGen(verifL1U.addr()) == gen0)
	verifAssert("C11.failed-reload.tcp-socket-never-rebound", verifTCPListenCount(9201) <= 1)
	verifAssert("C11.failed-reload.early-not-closed", !verifTCPPeerClosed(early))
	up, auth, id := verifProbeTCP(sm, 9201, verifKeys[0])
	verifAssert("C11.failed-reload.tcp-still-served", up && auth && id == "old")
	up, auth, id = verifProbeUDP(sm, verifL1U.addr(), verifKeys[0])
	verifAssert("C11.failed-reload.udp-still-served", up && auth && id == "old")
	verifTCPSend(early, verifHandshake(verifKeys[0]))
	verifTCPCloseWrite(early)
	verifQuiesce()
	verifAssert("C11.failed-reload.stop-ok", s.Stop() == nil)
	verifQuiesce()
	verifReach("C11.failed-reload.done", true)
}

// C11: connections that arrive while the new configuration is being started (here: at the moment
// a later listener of the new configuration is bound) are served, by either generation, and a
// key present in both configurations authenticates
func VH_C11_connections_while_new_config_starts() {
	sm := &verifSvcMetrics{}
	s := verifNewServer(sm)
	g1 := Config{Services: []ServiceConfig{verifSvc([]verifLn{verifL1T}, verifKC("old", verifKeys[0]))}}
	g2 := Config{Services: []ServiceConfig{
		verifSvc([]verifLn{verifL1T}, verifKC("new", verifKeys[0])),
		verifSvc([]verifLn{verifL2U}, verifKC("other", verifKeys[2])),
	}}
	verifAssert("C11.starting.first-load-ok", verifLoadCfg(s, &verifCfgStep{cfg: g1}) == nil)
	arrived := 0
	service.VerifListenPacketHook = func(address string) {
		if address != verifL2U.addr() || arrived > 0 {
			return
		}
		verifQuiesce() // whatever was started so far is up and waiting
		// clients connect now, one after the other
		for n := 1; n <= 3; n++ {
			arrived++
			served, _ := verifPresent(sm, 9201, verifKeys[0], n)
			verifAssert("C11.starting.retained-key-authenticates-throughout", served)
		}
	}
	err := verifLoadCfg(s, &verifCfgStep{cfg: g2})
	service.VerifListenPacketHook = nil
	verifAssert("C11.starting.reload-ok", err == nil)
	verifAssert("C11.starting.clients-arrived-during-the-reload", arrived == 3)
	verifAssert("C11.starting.stop-ok", s.Stop() == nil)
	verifQuiesce()
	verifReach("C11.starting.done", true)
}

// C07: the history the server is started with (replay_history N) really covers the N most recent
// handshakes, wherever the history is in its rotation
func VH_C07_configured_history() {
	const n = 4
	sm := &verifSvcMetrics{}
	service.VerifResetPackets()
	cfg := Config{Services: []ServiceConfig{verifSvc([]verifLn{verifL1T}, verifKC("k", verifKeys[0]))}}
	verifCfgNext = &verifCfgStep{cfg: cfg}
	s, err := RunOutlineServer("config.yml", defaultNatTimeout, newPrometheusServerMetrics(), sm, n)
	verifQuiesce()
	verifAssert("C07.configured.started", err == nil && s != nil)
	if err != nil {
		return
	}
	before := verifChoice("earlier-handshakes", n)
	between := verifChoice("handshakes-in-between", n) // at most n-1 others after H
	num := 1
	for i := 0; i < before; i++ {
		served, _ := verifPresent(sm, 9201, verifKeys[0], num)
		verifAssert("C07.configured.new-handshake-served", served)
		num++
	}
	h := num
	num++
	served, _ := verifPresent(sm, 9201, verifKeys[0], h)
	verifAssert("C07.configured.first-presentation-served", served)
	for i := 0; i < between; i++ {
		served, _ := verifPresent(sm, 9201, verifKeys[0], num)
		verifAssert("C07.configured.new-handshake-served", served)
		num++
	}
	served, probe := verifPresent(sm, 9201, verifKeys[0], h)
	verifAssert("C07.configured.replay-within-the-configured-history-refused", !served && probe)
	verifAssert("C07.configured.stop-ok", s.Stop() == nil)
	verifQuiesce()
	verifReach("C07.configured.done", true)
}

// C11 / C10: a reload that removes the first key and renumbers the rest (the id of the removed key
// now names another secret): the secret present in both configurations keeps authenticating, the
// removed one stops
func VH_C11_id_reused_for_another_secret() {
	sm := &verifSvcMetrics{}
	s := verifNewServer(sm)
	a, b := verifKeys[0], verifKeys[2] // same cipher, different secrets
	g1 := Config{Services: []ServiceConfig{verifSvc([]verifLn{verifL1T, verifL1U}, verifKC("user-0", a), verifKC("user-1", b))}}
	g2 := Config{Services: []ServiceConfig{verifSvc([]verifLn{verifL1T, verifL1U}, verifKC("user-0", b))}}
	verifAssert("C11.renumbered.first-load-ok", verifLoadCfg(s, &verifCfgStep{cfg: g1}) == nil)
	up, auth, id := verifProbeTCP(sm, 9201, b)
	verifAssert("C11.renumbered.before", up && auth && id == "user-1")
	verifAssert("C11.renumbered.reload-ok", verifLoadCfg(s, &verifCfgStep{cfg: g2}) == nil)
	up, auth, id = verifProbeTCP(sm, 9201, b)
	verifAssert("C11.renumbered.key-in-both-configurations-still-authenticates", up && auth && id == "user-0")
	up, auth, id = verifProbeUDP(sm, verifL1U.addr(), b)
	verifAssert("C11.renumbered.key-in-both-configurations-still-authenticates-udp", up && auth && id == "user-0")
	up, auth, _ = verifProbeTCP(sm, 9201, a)
	verifAssert("C10.renumbered.removed-key-stops-authenticating", up && !auth)
	verifAssert("C11.renumbered.stop-ok", s.Stop() == nil)
	verifQuiesce()
	verifReach("C11.renumbered.done", true)
}

// C11: one key id and secret offered with two ciphers by two services (a user list published on
// two ports): reloading the unchanged configuration changes nothing for either
func VH_C11_same_id_two_ciphers_across_reload() {
	sm := &verifSvcMetrics{}
	s := verifNewServer(sm)
	k0, k1 := verifKeys[0], verifKeys[1] // same secret, chacha20 and aes-128-gcm
	cfg := Config{Services: []ServiceConfig{
		verifSvc([]verifLn{verifL1T}, verifKC("user", k0)),
		verifSvc([]verifLn{verifL2T}, verifKC("user", k1)),
	}}
	verifAssert("C11.two-ciphers.first-load-ok", verifLoadCfg(s, &verifCfgStep{cfg: cfg}) == nil)
	for round := 0; round < 3; round++ {
		if round > 0 {
			verifAssert("C11.two-ciphers.reload-ok", verifLoadCfg(s, &verifCfgStep{cfg: cfg}) == nil)
		}
		up, auth, id := verifProbeTCP(sm, 9201, k0)
		verifAssert("C11.two-ciphers.first-service-key-authenticates-throughout", up && auth && id == "user")
		up, auth, id = verifProbeTCP(sm, 9202, k1)
		verifAssert("C11.two-ciphers.second-service-key-authenticates-throughout", up && auth && id == "user")
		up, auth, _ = verifProbeTCP(sm, 9201, k1)
		verifAssert("C09.two-ciphers.other-services-key-refused", up && !auth)
	}
	verifAssert("C11.two-ciphers.stop-ok", s.Stop() == nil)
	verifQuiesce()
	verifReach("C11.two-ciphers.done", true)
}

// C10: top-level sections come and go between files (legacy keys only, services only, a file
// with neither), with a malformed file in between: what runs is exactly the last file that
// loaded, nothing of an earlier or of a failed file
func VH_C10_sections_come_and_go() {
	sm := &verifSvcMetrics{}
	s := verifNewServer(sm)
	all := []verifLn{verifL1T, verifL1U, verifL2T, verifL2U, verifL3T, {true, 9204}, {false, 9204}}
	legacy := Config{Keys: []LegacyKeyServiceConfig{{KeyConfig: verifKC("old", verifKeys[0]), Port: verifL1T.port}}}
	verifAssert("C10.sections.first-load-ok", verifLoadCfg(s, &verifCfgStep{cfg: legacy}) == nil)
	verifCheckState("C10.sections.after-legacy-file", sm, &legacy, all, verifKeys)
	if verifFlag("malformed-file-in-between") {
		// a file whose legacy section is fine and whose services section does not decode
		bad := Config{Keys: []LegacyKeyServiceConfig{{KeyConfig: verifKC("bad", verifKeys[1]), Port: 9204}},
			Services: []ServiceConfig{verifSvc([]verifLn{verifL3T}, verifKC("bad-2", verifKeys[1]))}}
		verifAssert("C10.sections.malformed-file-refused", verifLoadCfg(s, &verifCfgStep{cfg: bad, parseErr: true}) != nil)
		verifCheckState("C10.sections.after-malformed-file", sm, &legacy, all, verifKeys)
	}
	services := Config{Services: []ServiceConfig{verifSvc([]verifLn{verifL2T, verifL2U}, verifKC("new", verifKeys[2]))}}
	verifAssert("C10.sections.services-file-ok", verifLoadCfg(s, &verifCfgStep{cfg: services}) == nil)
	verifCheckState("C10.sections.after-services-only-file", sm, &services, all, verifKeys)
	if verifFlag("back-to-legacy") {
		legacy2 := Config{Keys: []LegacyKeyServiceConfig{{KeyConfig: verifKC("old2", verifKeys[1]), Port: verifL3T.port}}}
		verifAssert("C10.sections.legacy-again-ok", verifLoadCfg(s, &verifCfgStep{cfg: legacy2}) == nil)
		verifCheckState("C10.sections.after-legacy-only-file", sm, &legacy2, all, verifKeys)
	} else {
		// a file with neither section: nothing is served any more
		verifAssert("C10.sections.empty-file-ok", verifLoadCfg(s, &verifCfgStep{}) == nil)
		verifCheckState("C10.sections.after-empty-file", sm, &Config{}, all, verifKeys[:1])
	}
	verifAssert("C10.sections.stop-ok", s.Stop() == nil)
	verifQuiesce()
	verifReach("C10.sections.done", true)
}

// C09: unusual but valid configuration shapes: a service that lists keys but no listeners (it
// serves nowhere and must not shift anything), and secrets that begin or end with white space
// (the secret is the configured string, byte for byte)
func VH_C09_config_shapes() {
	sm := &verifSvcMetrics{}
	s := verifNewServer(sm)
	padded := verifK{"chacha20-ietf-poly1305", " s1 "}
	keys := []verifK{verifKeys[0], verifKeys[1], verifKeys[2], padded}
	idle := ServiceConfig{Keys: []KeyConfig{verifKC("idle-1", verifKeys[2])}} // no listeners
	a := verifSvc([]verifLn{verifL1T, verifL1U}, verifKC("a-1", verifKeys[0]))
	b := verifSvc([]verifLn{verifL2T, verifL2U}, verifKC("b-1", verifKeys[1]))
	if verifFlag("a-secret-with-white-space") {
		a.Keys = []KeyConfig{verifKC("a-padded", padded)}
	}
	var cfg Config
	switch verifChoice("listenerless-service-at", 3) {
	case 0:
		cfg.Services = []ServiceConfig{idle, a, b}
	case 1:
		cfg.Services = []ServiceConfig{a, idle, b}
	case 2:
		cfg.Services = []ServiceConfig{a, b}
	}
	verifAssert("C09.shapes.load-ok", verifLoadCfg(s, &verifCfgStep{cfg: cfg}) == nil)
	verifCheckState("C09.shapes", sm, &cfg, []verifLn{verifL1T, verifL1U, verifL2T, verifL2U, verifL3T}, keys)
	verifAssert("C09.shapes.stop-ok", s.Stop() == nil)
	verifQuiesce()
	verifReach("C09.shapes.done", true)
}

// C09: one address carries the TCP listener of one service and the UDP listener of another (the
// configuration allows an address once per listener type): each listener serves the keys of the
// service that configures it, not those of the other service on the same address
func VH_C09_address_shared_across_protocols() {
	sm := &verifSvcMetrics{}
	s := verifNewServer(sm)
	a := verifSvc([]verifLn{verifL1T, verifL2U}, verifKC("a-1", verifKeys[0]))
	b := verifSvc([]verifLn{verifL2T, verifL1U}, verifKC("b-1", verifKeys[1]))
	var cfg Config
	if verifFlag("b-first") {
		cfg.Services = []ServiceConfig{b, a}
	} else {
		cfg.Services = []ServiceConfig{a, b}
	}
	verifAssert("C09.cross-protocol.load-ok", verifLoadCfg(s, &verifCfgStep{cfg: cfg}) == nil)
	verifCheckState("C09.cross-protocol", sm, &cfg, []verifLn{verifL1T, verifL1U, verifL2T, verifL2U}, verifKeys)
	verifAssert("C09.cross-protocol.stop-ok", s.Stop() == nil)
	verifQuiesce()
	verifReach("C09.cross-protocol.done", true)
}

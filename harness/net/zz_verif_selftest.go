package net

import "net"

// translator selftest: the repo's own test addresses and pseudo-random ones through
// RequirePublicIP / IsPrivateAddress, and the IP text-length model against the real formatter
func VH_ST_net() {
	table := []string{"8.8.8.8", "64.233.191.255", "2001:4860:4860::8888", "::ffff:8.8.8.8", "0.0.0.0", "127.0.0.1", "::1",
		"169.254.0.1", "fe80::1", "224.0.0.251", "ff02::fb", "255.255.255.255", "10.0.0.1", "172.16.0.1", "172.31.255.255", "172.32.0.0",
		"192.168.0.1", "192.167.255.255", "100.64.0.0", "100.127.255.255", "100.128.0.0", "fc00::1", "fdff::1", "fe00::1", "::ffff:10.1.2.3", "::ffff:100.64.1.1"}
	for _, s := range table {
		ip := net.ParseIP(s)
		err := RequirePublicIP(ip)
		verifRecord("tbl-public-"+s, verifB2U(err == nil))
		verifRecord("tbl-private-"+s, verifB2U(IsPrivateAddress(ip)))
		if err != nil {
			verifRecord("tbl-msg-"+s, verifStrSum(err.Error()))
		}
	}
	r := &verifRng{s: verifSeed() + 7}
	for i := 0; i < 40; i++ {
		b4 := r.bytes(4)
		verifRecord("rnd4", verifB2U(RequirePublicIP(net.IP(b4)) == nil))
		verifRecord("len4", uint64(verifIPTextLen(b4)))
		b16 := r.bytes(16)
		// sprinkle zero groups so that the :: compression paths are exercised
		for k := 0; k < 16; k += 2 {
			if r.next()%3 == 0 {
				b16[k], b16[k+1] = 0, 0
			}
			if r.next()%5 == 0 {
				b16[k] = 0
			}
		}
		verifRecord("rnd16", verifB2U(RequirePublicIP(net.IP(b16)) == nil))
		verifRecord("len16", uint64(verifIPTextLen(b16)))
		verifRecord("str16", verifStrSum(net.IP(b16).String()))
	}
}

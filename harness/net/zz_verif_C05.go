package net

// C05 — RequirePublicIP over the whole 2^32 / 2^128 address space, against an oracle written
// independently of the code's CIDR/mask loop (DESIGN.md Appendix D).

import "net"

func verifC05v4(v uint32) (reject, accept bool) {
	reject = v == 0 || v>>24 == 127 || v>>16 == 0xA9FE || v>>28 == 0xE || v == 0xFFFFFFFF ||
		v>>24 == 10 || v>>20 == 0xAC1 || v>>16 == 0xC0A8 || v>>22 == 0x191
	special := v>>24 == 0 || v>>8 == 0xC00000 || v>>8 == 0xC00002 || v>>8 == 0xC01FC4 || v>>8 == 0xC034C1 ||
		v>>8 == 0xC05863 || v>>8 == 0xC0AF30 || v>>17 == 0xC612>>1 || v>>8 == 0xC63364 || v>>8 == 0xCB0071 || v>>28 == 0xF
	accept = !reject && !special
	return
}

func VH_C05_v4() {
	b := verifBytes("ip", 4)
	v := uint32(b[0])<<24 | uint32(b[1])<<16 | uint32(b[2])<<8 | uint32(b[3])
	reject, accept := verifC05v4(v)
	err := RequirePublicIP(net.IP(b))
	verifAssert("C05.v4.must-reject", !reject || err != nil)
	verifAssert("C05.v4.must-accept", !accept || err == nil)
	verifReach("C05.v4.accepted", err == nil)
	verifReach("C05.v4.rejected", err != nil)
}

func VH_C05_v6() {
	b := verifBytes("ip", 16)
	mapped := true
	for i := 0; i < 10; i++ {
		if b[i] != 0 {
			mapped = false
		}
	}
	if b[10] != 0xff || b[11] != 0xff {
		mapped = false
	}
	err := RequirePublicIP(net.IP(b))
	if mapped {
		v := uint32(b[12])<<24 | uint32(b[13])<<16 | uint32(b[14])<<8 | uint32(b[15])
		reject, accept := verifC05v4(v)
		verifAssert("C05.mapped.must-reject", !reject || err != nil)
		verifAssert("C05.mapped.must-accept", !accept || err == nil)
		verifReach("C05.mapped.accepted", err == nil)
		return
	}
	allZero := true
	for i := 0; i < 16; i++ {
		if b[i] != 0 {
			allZero = false
		}
	}
	loop := true
	for i := 0; i < 15; i++ {
		if b[i] != 0 {
			loop = false
		}
	}
	if b[15] != 1 {
		loop = false
	}
	reject := allZero || loop || (b[0] == 0xfe && b[1]&0xc0 == 0x80) || b[0] == 0xff || b[0]&0xfe == 0xfc
	hi := uint32(b[0])<<24 | uint32(b[1])<<16 | uint32(b[2])<<8 | uint32(b[3])
	special := hi>>9 == 0x20010000>>9 || hi == 0x20010db8 || hi>>16 == 0x2002 || hi>>12 == 0x3fff0 || hi>>16 == 0x5f00
	accept := b[0]&0xe0 == 0x20 && !special
	verifAssert("C05.v6.must-reject", !reject || err != nil)
	verifAssert("C05.v6.must-accept", !accept || err == nil)
	verifReach("C05.v6.accepted", err == nil)
	verifReach("C05.v6.rejected", err != nil)
}

// malformed lengths (0..17 except 4 and 16) are never accepted
func VH_C05_badlen() {
	n := verifInt("len", 0, 17)
	verifAssume(n != 4 && n != 16)
	n = verifConcretize(n)
	b := verifBytes("ip", n)
	err := RequirePublicIP(net.IP(b))
	verifAssert("C05.badlen.rejected", err != nil)
}

// the very first destination checks of a process run at the same time (the first connections
// after start-up): each of them is decided against the complete policy
func VH_C05_concurrent_first_use() {
	verifRaceDetect(true)
	verifSched(2)
	ips := []net.IP{{100, 64, 0, 1}, {192, 168, 1, 1}, net.ParseIP("fd00::1")}
	a := ips[verifChoice("first", 3)]
	b := ips[verifChoice("second", 3)]
	var ea, eb error
	done := make(chan struct{}, 2)
	go func() { ea = RequirePublicIP(a); done <- struct{}{} }()
	go func() { eb = RequirePublicIP(b); done <- struct{}{} }()
	<-done
	<-done
	verifAssert("C05.first-use.both-refused", ea != nil && eb != nil)
	verifReach("C05.first-use.done", true)
}

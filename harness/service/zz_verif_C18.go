package service

// C18 — no input crashes the server: downstream packet layout for every reply length and every
// sender address form; upstream datagram parsing for arbitrary plaintext.

import (
	"errors"
	"net"
	"sync"
	"time"
)

func verifRaddr(kind int) net.Addr {
	port := int(verifU16("rport"))
	switch kind {
	case 0:
		return &net.UDPAddr{IP: net.IP(verifBytes("rip4", 4)), Port: port}
	case 1:
		return &net.UDPAddr{IP: net.IP(verifBytes("rip4", 4)).To16(), Port: port}
	case 2:
		ip := verifBytes("rip6", 16)
		verifAssume(ip[0] != 0) // not IPv4-mapped
		return &net.UDPAddr{IP: net.IP(ip), Port: port}
	default:
		ip := verifBytes("rip6", 16)
		verifAssume(ip[0] == 0xfe && ip[1] == 0x80)
		return &net.UDPAddr{IP: net.IP(ip), Port: port, Zone: "eth0"}
	}
}

// every reply, of any length, from any sender form, is packed without a run-time panic and sent
// to the association's client with the expected wire length
func verifC18TimedCopy(kinds int) {
	verifAEADHavoc(true)
	cipher := verifChoice("cipher", 4)
	key := verifKey(cipher, "s1")
	saltSize := key.SaltSize()
	clientAddr := &net.UDPAddr{IP: net.IPv4(198, 51, 100, 7), Port: 4444}
	client := &verifPacketConn{name: "client", noCopy: true}
	target := &verifPacketConn{name: "target", endErr: verifTimeoutErr{}}
	kind := verifChoice("raddr-kind", kinds)
	raddr := verifRaddr(kind)
	bodyLen := verifInt("bodylen", 0, 70000)
	target.reads = append(target.reads, verifRead{n: bodyLen, addr: raddr})
	cm := &verifUDPConnMetrics{}
	nc := &natconn{PacketConn: target, cryptoKey: key, metrics: cm, defaultTimeout: defaultNatTimeout}
	timedCopy(clientAddr, client, nc, noopLogger())
	verifAssert("C18.timedcopy.reported-once", len(cm.fromTarget) == 1)
	if len(cm.fromTarget) != 1 {
		return
	}
	// every datagram that fits a UDP packet at all is reported with its real payload size
	// (the largest UDP payload over IPv4 is 65507 bytes; the relay buffer has room for less)
	if bodyLen <= 65536-32-19 {
		verifAssert("C16.timedcopy.reported-with-its-payload-size", cm.fromTarget[0].a == int64(bodyLen))
	}
	got := bodyLen
	if max := serverUDPBufferSize - saltSize - maxAddrLen; got > max {
		got = max
	}
	addrLen := 7
	if kind >= 2 {
		addrLen = 19
	}
	if len(client.writes) == 1 {
		verifAssert("C18.timedcopy.wire-length", len(client.writes[0].data) == saltSize+addrLen+got+16)
		// what is relayed carries the whole reply body: a reply that does not fit is dropped
		verifAssert("C03.reply.never-truncated", len(client.writes[0].data) == saltSize+addrLen+bodyLen+16)
		verifAssert("C18.timedcopy.to-client", client.writes[0].addr == net.Addr(clientAddr))
		verifAssert("C18.timedcopy.metric-sizes", cm.fromTarget[0].a == int64(got) && cm.fromTarget[0].b == int64(saltSize+addrLen+got+16))
		verifReach("C18.timedcopy.sent", true)
	} else {
		// only a packet too large for the buffer may be dropped
		verifAssert("C18.timedcopy.drop-only-when-too-big", cm.fromTarget[0].status == "ERR_PACK" && saltSize+addrLen+got+16 > serverUDPBufferSize-(maxAddrLen-addrLen))
		verifReach("C18.timedcopy.too-big", true)
	}
}

func VH_C18_timedcopy() { verifC18TimedCopy(4) }

// TCP: arbitrary authenticated plaintext in the address header never panics; the status is
// ERR_READ_ADDRESS exactly when the header is not a well-formed SOCKS address
func VH_C18_tcp_header() {
	cl, specs, entries := verifMakeList(1, 1, false)
	key := verifKey(specs[0].cipher, verifSecrets[specs[0].secret])
	n := verifChoice("hlen", 9) // 0..8 header bytes, then EOF
	hdr := verifBytes("hdr", n)
	var stream []byte
	if n > 0 {
		stream = verifClientStream(key, hdr)
	} else {
		// salt and an empty first chunk cannot be produced by the writer: just the salt
		stream = verifClientStream(key, []byte{9})[:key.SaltSize()]
	}
	verifAssume(!entries[0].SaltGenerator.IsServerSalt(stream[:key.SaltSize()]))
	conn := &verifStreamConn{name: "client", remote: &net.TCPAddr{IP: net.IPv4(203, 0, 113, 5), Port: 50000}}
	conn.reads = []verifSRead{{data: stream}}
	dialer := &verifDialer{conn: &verifStreamConn{name: "target", remote: &net.TCPAddr{IP: net.IPv4(93, 184, 216, 34), Port: 80}}}
	h := NewStreamHandler(NewShadowsocksStreamAuthenticator(cl, nil, nil, nil), tcpReadTimeout)
	h.SetTargetDialer(dialer)
	m := &verifTCPMetrics{}
	h.Handle(contextBackground(), conn, m)
	verifAssert("C18.tcp-header.closed-once", len(m.closed) == 1 && conn.closed == 1)
	if n >= 7 {
		wellFormed := verifAny(hdr[0] == 1, verifAll(hdr[0] == 3, int(hdr[1]) <= n-4))
		if wellFormed {
			verifAssert("C18.tcp-header.dialed", len(dialer.dials) == 1)
			verifReach("C18.tcp-header.dialed", true)
		}
	}
	if len(dialer.dials) == 0 && n > 0 {
		verifAssert("C18.tcp-header.status", m.closed[0] == "ERR_READ_ADDRESS" || m.closed[0] == "ERR_CIPHER")
		verifReach("C18.tcp-header.bad-address", m.closed[0] == "ERR_READ_ADDRESS")
	}
}

// UDP: arbitrary authenticated plaintext never panics and is forwarded only with a valid header
func VH_C18_udp_plaintext() {
	verifResetNet()
	cl, specs, _ := verifMakeList(1, 1, false)
	key := verifKey(specs[0].cipher, verifSecrets[specs[0].secret])
	um := &verifUDPMetrics{}
	h := NewPacketHandler(defaultNatTimeout, cl, um, nil)
	client := &verifPacketConn{name: "client"}
	n := []int{0, 1, 3, 4, 6, 7, 10}[verifChoice("ptlen", 7)]
	pt := verifBytes("pt", n)
	client.reads = []verifRead{{data: verifPack(key, pt), addr: verifClientAddrs[0]}}
	h.Handle(client)
	verifQuiesce()
	forwarded := len(verifTargets) == 1 && len(verifTargets[0].writes) == 1
	if forwarded {
		verifAssert("C18.udp-plaintext.header-well-formed", n >= 4 && verifAny(verifAll(pt[0] == 1, n >= 7), verifAll(pt[0] == 3, int(pt[1]) <= n-4), verifAll(pt[0] == 4, n >= 19)))
		verifReach("C18.udp-plaintext.forwarded", true)
	}
	verifAssert("C18.udp-plaintext.loop-survives", client.readPos == 1)
	verifReach("C18.udp-plaintext.dropped", !forwarded)
}

// a failure while handling one connection does not stop the listener or affect others, and
// serving stops only after all running handlers have returned
func VH_C18_streamserve_isolation() {
	conns := []*verifStreamConn{{name: "c0"}, {name: "c1"}, {name: "c2"}}
	next := 0
	faultAt := verifChoice("accept-fault-at", 4)
	accept := func() (transportStreamConn, error) {
		if next == faultAt && faultAt < 3 {
			faultAt = -1
			return nil, errVerifFault // a transient accept error must not stop the loop
		}
		if next >= len(conns) {
			return nil, net.ErrClosed
		}
		c := conns[next]
		next++
		return c, nil
	}
	panicOn := verifChoice("panic-on", 4)
	handled := 0
	waitsForCtx := verifFlag("a-handler-waits-for-its-context")
	var hmu sync.Mutex
	handledBy := map[transportStreamConn]int{}
	release := make(chan struct{})
	handle := func(ctx contextContext, c transportStreamConn) {
		hmu.Lock()
		handledBy[c]++
		hmu.Unlock()
		if c == transportStreamConn(conns[2]) {
			<-release // a slow handler: StreamServe must wait for it
		}
		if waitsForCtx && c == transportStreamConn(conns[1]) {
			<-ctx.Done() // (say, a dial that is still pending): released when serving stops
		}
		hmu.Lock()
		handled++
		hmu.Unlock()
		if panicOn < 3 && c == transportStreamConn(conns[panicOn]) {
			panic("handler failure")
		}
	}
	done := make(chan struct{}, 1)
	go func() {
		StreamServe(accept, handle)
		done <- struct{}{}
	}()
	verifQuiesce()
	verifAssert("C18.serve.waits-for-running-handlers", len(done) == 0)
	close(release)
	verifQuiesce()
	verifAssert("C18.serve.returns-after-handlers", len(done) == 1)
	verifAssert("C18.serve.all-accepted-handled", handled == 3)
	for _, c := range conns {
		verifAssert("C18.serve.every-conn-closed", c.closed == 1)
		// each accepted connection is handed to exactly one handler (connections queued behind
		// each other are not mixed up)
		verifAssert("C18.serve.every-conn-handled-once|C15.serve.every-conn-handled-once|C06.serve.every-conn-handled-once", handledBy[transportStreamConn(c)] == 1)
	}
	verifAssert("C18.serve.nothing-left", verifBlockedIn("StreamServe") == 0)
	verifReach("C18.serve.with-panic", panicOn < 3)
}

// an accept error other than "closed" (here: an accept deadline in the past) is reported to a
// waiting handle and does not stop the shared listener
func VH_C18_accept_error_isolation() {
	ml := NewMultiStreamListener("127.0.0.1:0", nil)
	h, err := ml.Acquire()
	verifAssert("C18.accept-error.acquire", err == nil)
	msl, isMSL := ml.(*multiStreamListener)
	verifAssume(isMSL) // otherwise this harness does not apply
	tcpl, isTCPL := msl.ln.(*TCPListener)
	verifAssume(isTCPL)
	tl := tcpl.ln
	r1 := verifAcceptAsync(h)
	verifQuiesce()
	tl.SetDeadline(time.Unix(1, 0)) // accept now fails with a timeout error
	verifQuiesce()
	verifAssert("C18.accept-error.delivered-as-error", len(r1) == 1)
	if len(r1) == 1 {
		a := <-r1
		verifAssert("C18.accept-error.not-errclosed", a.err != nil && !errors.Is(a.err, net.ErrClosed))
	}
	tl.SetDeadline(time.Time{})
	// the listener is still serving
	r2 := verifAcceptAsync(h)
	// natively the accept loop may deliver a few more timeout errors before the reset is seen
	for i := 0; i < verifRepeat(50); i++ {
		verifQuiesce()
		if len(r2) == 1 {
			a := <-r2
			if a.err == nil || errors.Is(a.err, net.ErrClosed) {
				r2 <- a
				break
			}
			r2 = verifAcceptAsync(h) // a left-over timeout error from before the reset
		} else {
			break
		}
	}
	id := verifDialTCP(h.Addr())
	verifAssert("C18.accept-error.still-listening", id == 0)
	verifQuiesce()
	verifAssert("C18.accept-error.next-connection-served", len(r2) == 1)
	if len(r2) == 1 {
		a := <-r2
		verifAssert("C18.accept-error.next-connection-is-it", a.err == nil && verifTCPConnID(a.conn) == 0)
	}
	h.Close()
	verifQuiesce()
	verifReach("C18.accept-error.done", true)
}

package service

// C18 — no input crashes the server: downstream packet layout for every reply length and every
// sender address form; upstream datagram parsing for arbitrary plaintext.

import (
	"net"
)

func verifRaddr(kind int) net.Addr {
	port := int(verifU16("rport"))
	switch kind {
	case 0:
		return &net.UDPAddr{IP: net.IP(verifBytes("rip4", 4)), Port: port}
	case 1:
		return &net.UDPAddr{IP: net.IP(verifBytes("rip4", 4)).To16(), Port: port}
	case 2:
		ip := verifBytes("rip6", 16)
		verifAssume(ip[0] != 0) // not IPv4-mapped
		return &net.UDPAddr{IP: net.IP(ip), Port: port}
	default:
		ip := verifBytes("rip6", 16)
		verifAssume(ip[0] == 0xfe && ip[1] == 0x80)
		return &net.UDPAddr{IP: net.IP(ip), Port: port, Zone: "eth0"}
	}
}

// every reply, of any length, from any sender form, is packed without a run-time panic and sent
// to the association's client with the expected wire length
func verifC18TimedCopy(kinds int) {
	verifAEADHavoc(true)
	cipher := verifChoice("cipher", 4)
	key := verifKey(cipher, "s1")
	saltSize := key.SaltSize()
	clientAddr := &net.UDPAddr{IP: net.IPv4(198, 51, 100, 7), Port: 4444}
	client := &verifPacketConn{name: "client", noCopy: true}
	target := &verifPacketConn{name: "target", endErr: verifTimeoutErr{}}
	kind := verifChoice("raddr-kind", kinds)
	raddr := verifRaddr(kind)
	bodyLen := verifInt("bodylen", 0, 70000)
	target.reads = append(target.reads, verifRead{n: bodyLen, addr: raddr})
	cm := &verifUDPConnMetrics{}
	nc := &natconn{PacketConn: target, cryptoKey: key, metrics: cm, defaultTimeout: defaultNatTimeout}
	timedCopy(clientAddr, client, nc, noopLogger())
	verifAssert("C18.timedcopy.reported-once", len(cm.fromTarget) == 1)
	got := bodyLen
	if max := serverUDPBufferSize - saltSize - maxAddrLen; got > max {
		got = max
	}
	addrLen := 7
	if kind >= 2 {
		addrLen = 19
	}
	if len(client.writes) == 1 {
		verifAssert("C18.timedcopy.wire-length", len(client.writes[0].data) == saltSize+addrLen+got+16)
		verifAssert("C18.timedcopy.to-client", client.writes[0].addr == net.Addr(clientAddr))
		verifAssert("C18.timedcopy.metric-sizes", cm.fromTarget[0].a == int64(got) && cm.fromTarget[0].b == int64(saltSize+addrLen+got+16))
		verifReach("C18.timedcopy.sent", true)
	} else {
		// only a packet too large for the buffer may be dropped
		verifAssert("C18.timedcopy.drop-only-when-too-big", cm.fromTarget[0].status == "ERR_PACK" && saltSize+addrLen+got+16 > serverUDPBufferSize-(maxAddrLen-addrLen))
		verifReach("C18.timedcopy.too-big", true)
	}
}

func VH_C18_timedcopy() { verifC18TimedCopy(4) }

package service

// C07 — replay cache: a handshake among the most recent N checked ones is refused; a refusal
// implies a checksum collision with a remembered handshake. Bounded histories (replayable) and a
// one-step inductive harness from an arbitrary cache state (VH_C07_step_NR).

func verifBytesEq(a, b []byte) bool {
	if len(a) != len(b) {
		return false
	}
	eq := true
	for i := range a {
		eq = verifAll(eq, a[i] == b[i])
	}
	return eq
}

// independent checksum spec: byte i of id and of salt is folded into lane i mod 4
func verifC07Hash(id string, salt []byte) uint32 {
	var lane [4]uint32
	for i := 0; i < len(id); i++ {
		lane[i%4] ^= uint32(id[i])
	}
	for i := 0; i < len(salt); i++ {
		lane[i%4] ^= uint32(salt[i])
	}
	return lane[0]<<24 | lane[1]<<16 | lane[2]<<8 | lane[3]
}

func VH_C07_prehash() {
	ids := []string{"", "k", "key-17", "abcdefgh"}
	id := ids[verifChoice("id", 4)]
	n := []int{16, 24, 32}[verifChoice("saltlen", 3)]
	salt := verifBytes("salt", n)
	got := preHash(id, salt)
	// (which checksum is used is not part of the property: observed, not required)
	verifReach("C07.prehash.matches-the-fold-of-this-version", got == verifC07Hash(id, salt))
	// every salt byte influences the checksum: flipping one byte changes it
	k := verifInt("pos", 0, n-1)
	salt2 := make([]byte, n)
	copy(salt2, salt)
	d := verifU8("delta")
	verifAssume(d != 0)
	salt2[k] ^= d
	verifAssert("C07.prehash.single-byte-sensitive", preHash(id, salt2) != got)
	// a handshake is the access key plus the salt: every byte of the key id counts as well
	if len(id) > 0 {
		ib := []byte(id)
		ib[verifChoice("id-pos", len(ib))] ^= []byte{1, 0x20, 0x80, 0xff}[verifChoice("id-delta", 4)]
		verifAssert("C07.prehash.key-id-sensitive", preHash(string(ib), salt) != got)
	}
	verifReach("C07.prehash.done", true)
}

func verifC07Seq(steps int, maxCap int, withResize bool) {
	n := verifInt("capacity", 1, maxCap)
	cache := NewReplayCache(n)
	minCap := n
	ids := []string{"a", "b"}
	type rec struct {
		id   int
		salt []byte
		h    uint32
		ok   bool
	}
	var hist []rec
	resizeAt := -1
	newCap := 0
	if withResize {
		resizeAt = verifInt("resize-at", 0, steps-1)
		newCap = verifInt("resize-to", 1, maxCap)
	}
	capSince := make([]int, 0, steps) // min capacity in effect since add j
	for i := 0; i < steps; i++ {
		if withResize && i == resizeAt {
			err := cache.Resize(newCap)
			verifAssert("C07.seq.resize-ok", err == nil)
			minCap = verifIteInt(newCap < minCap, newCap, minCap)
			for j := range capSince {
				capSince[j] = verifIteInt(newCap < capSince[j], newCap, capSince[j])
			}
			n = newCap
		}
		idx := verifChoice("id", 2)
		salt := verifBytes("salt", 4)
		ok := cache.Add(ids[idx], salt)
		h := preHash(ids[idx], salt) // the implementation's own checksum decides what collides
		dupInWindow := false
		collides := false
		for j := range hist {
			same := verifAll(hist[j].id == idx, verifBytesEq(hist[j].salt, salt))
			// handshake j is among the most recent capSince[j] checked ones
			recent := i-j <= capSince[j]
			dupInWindow = verifAny(dupInWindow, verifAll(same, recent))
			collides = verifAny(collides, hist[j].h == h)
		}
		verifAssert("C07.seq.recent-duplicate-refused", verifImplies(dupInWindow, !ok))
		verifAssert("C07.seq.refusal-implies-collision", verifImplies(!ok, collides))
		verifReach("C07.seq.refused", !ok)
		verifReach("C07.seq.accepted-after-history", verifAll(ok, i > 2))
		hist = append(hist, rec{idx, salt, h, ok})
		capSince = append(capSince, n)
	}
	_ = minCap
}

func VH_C07_seq() { verifC07Seq(5, 2, false) }

func VH_C07_seq_resize() { verifC07Seq(4, 3, true) }

func VH_C07_seq_T() { verifC07Seq(6, 3, false) }

func VH_C07_seq_resize_T() { verifC07Seq(5, 3, true) }

// the history is made smaller (a reload with a smaller replay_history) right after the cache has
// rotated: the handshakes that are still within the new, smaller window are remembered
func VH_C07_shrink() {
	capOld := 2 + verifChoice("old-capacity", 2) // 2..3
	capNew := 1 + verifChoice("new-capacity", capOld-1)
	c := NewReplayCache(capOld)
	n := capOld + 1 + verifChoice("more", 2) // at least one rotation has happened
	salts := make([][]byte, n)
	for i := range salts {
		salts[i] = []byte{byte(i + 1), 2, 3, 4}
		verifAssert("C07.shrink.new-handshake-accepted", c.Add("a", salts[i]))
	}
	verifAssert("C07.shrink.resize-ok", c.Resize(capNew) == nil)
	j := verifChoice("replayed", n)
	ok := c.Add("a", salts[j])
	if n-j <= capNew {
		// salts[j] is among the most recent capNew handshakes checked
		verifAssert("C07.shrink.recent-handshake-still-refused", !ok)
		verifReach("C07.shrink.recent", true)
	}
}

// disabled cache: everything is new
func VH_C07_disabled() {
	var nilCache *ReplayCache
	salt := verifBytes("salt", 16)
	verifAssert("C07.nil-cache-accepts", nilCache.Add("a", salt) && nilCache.Add("a", salt))
	zero := NewReplayCache(0)
	verifAssert("C07.zero-cache-accepts", zero.Add("a", salt) && zero.Add("a", salt))
	verifReach("C07.disabled.done", true)
}

// One inductive step from an arbitrary cache state (capacity 1..20000, arbitrary active/archive
// sets). Ghost history for one tracked checksum h:
//
//	age  = number of Adds since h was last checked (age==0: never / forgotten is expressed by inH=false)
//	cs   = Adds that reached the insertion point in the current generation (== len(active))
//
// Invariant I: len(active) >= 1 after any Add; tracked && age < len(active)-pos ... is too
// history dependent, so the step is phrased on set membership directly:
//
//	(A) Add(x) refuses only if h(x) in active ∪ archive (pre-state), and refuses if h(x) in active, or in
//	    archive while len(active) < capacity (the promise is the most recent `capacity` checks: what lies
//	    further back may be refused or not)
//	(B) after Add(x): h(x) in active'
//	(C) every y in active is in active' ∪ archive'  (nothing remembered in the current generation is lost by one Add)
//	(D) len(active') <= max(len(active)+1, 1) and (rotation iff len(active) >= capacity) and after rotation archive' == active
//
// (C)+(D) give by induction: an entry survives at least `capacity` further Adds.
func VH_C07_step_NR() {
	capacity := verifInt("capacity", 1, MaxCapacity)
	c := &ReplayCache{capacity: capacity, active: map[uint32]empty{}, archive: map[uint32]empty{}}
	verifSymSet(c.active, "active")
	verifSymSet(c.archive, "archive")
	lenActive := len(c.active)
	salt := verifBytes("salt", 4)
	x := preHash("", salt)   // the implementation's own checksum
	y := verifU32("tracked") // arbitrary other remembered checksum
	_, xInActive := c.active[x]
	_, xInArchive := c.archive[x]
	_, yInActive := c.active[y]
	ok := c.Add("", salt)
	// refused only if remembered (a checksum collision with a remembered handshake at worst) ...
	verifAssert("C07.step.refused-only-if-remembered", verifImplies(!ok, verifAny(xInActive, xInArchive)))
	// ... and refused whenever it can be among the most recent `capacity` checks: it is in the
	// current generation, or in the previous one while the current one is not yet full (a full
	// current generation alone spans `capacity` checks or more, all of them later)
	verifAssert("C07.step.refused-if-within-the-window", verifImplies(verifAny(xInActive, verifAll(xInArchive, lenActive < capacity)), !ok))
	_, xNow := c.active[x]
	verifAssert("C07.step.added-to-active", xNow)
	_, yAct := c.active[y]
	_, yArc := c.archive[y]
	verifAssert("C07.step.active-entry-kept", verifImplies(yInActive, verifAny(yAct, yArc)))
	verifAssert("C07.step.no-early-rotation", verifImplies(verifAll(yInActive, lenActive < capacity), yAct))
	verifAssert("C07.step.grows-by-at-most-one", len(c.active) <= lenActive+1)
	verifAssert("C07.step.rotation-restarts-generation", verifImplies(verifAll(yInActive, !yAct, y != x), len(c.active) == 1))
	if yInActive {
		if yAct {
			verifReach("C07.step.not-rotated", true)
		} else {
			verifReach("C07.step.rotated", true)
		}
	}
}

// concurrent copies of one handshake: exactly one is accepted (every schedule with up to 2
// preemptions at synchronisation points; natively repeated)
func VH_C07_concurrent() {
	verifSched(2)
	for rep := 0; rep < verifRepeat(3000); rep++ {
		c := NewReplayCache(2)
		if verifFlag("prefill") {
			c.Add("x", []byte{9, 9, 9, 9}) // an unrelated remembered handshake
		}
		salt := []byte{1, 2, 3, 4}
		k := 2
		if verifNative() {
			k = 8 // more simultaneous copies make the window likely to be hit natively
		}
		res := make([]bool, k)
		fs := make([]func(), k)
		for i := range fs {
			i := i
			fs[i] = func() { res[i] = c.Add("a", salt) }
		}
		start := make(chan struct{})
		verifParStart(start, fs...)
		served := 0
		for _, r := range res {
			if r {
				served++
			}
		}
		verifAssert("C07.concurrent.exactly-one-served", served == 1)
		verifAssert("C19.replay-history.duplicates-equal-some-sequential-order", served == 1)
		verifAssert("C07.concurrent.later-copy-refused", !c.Add("a", salt))
	}
	verifReach("C07.concurrent.done", true)
}

// three parties: two copies of one handshake and an unrelated one that makes the history rotate
// in between — still exactly one copy is served
func VH_C07_concurrent_rotation() {
	verifSched(1)
	for rep := 0; rep < verifRepeat(150000); rep++ {
		// (history 2 or 3: with one unrelated handshake in between, every later copy is within the
		// most recent `capacity` checks of the one before it)
		c := NewReplayCache(2 + verifChoice("cap", 2))
		c.Add("a", []byte{9, 9, 9, 9})
		if verifFlag("prefill-two") {
			c.Add("a", []byte{8, 8, 8, 8})
		}
		x, y := []byte{1, 2, 3, 4}, []byte{5, 6, 7, 8}
		k := 2
		if verifNative() {
			k = 4
		}
		res := make([]bool, k)
		fs := make([]func(), 0, k+1)
		for i := 0; i < k; i++ {
			i := i
			fs = append(fs, func() { res[i] = c.Add("a", x) })
		}
		fs = append(fs, func() { c.Add("a", y) })
		verifParStart(make(chan struct{}), fs...)
		served := 0
		for _, r := range res {
			if r {
				served++
			}
		}
		verifAssert("C07.rotation.exactly-one-served", served == 1)
		verifAssert("C19.replay-history.equals-some-sequential-order", served == 1)
	}
	verifReach("C07.rotation.done", true)
}

// longer histories with one handshake presented three times: a refused replay is itself one of
// the handshakes the server checked, so a further replay within N of it is refused as well,
// wherever the rotations of the two generations fall (N = 4..8, up to 2N fresh handshakes
// between the presentations; the fresh handshakes are concrete and distinct)
func VH_C07_replay_of_a_refused_replay() {
	n := 4 + verifChoice("capacity", 5)
	c := NewReplayCache(n)
	next := 0
	h := []byte{0xaa, 0xbb, 0xcc, 0xdd}
	verifAssert("C07.long.first-presentation-accepted", c.Add("a", h))
	last, i := 0, 0
	for round := 0; round < 2; round++ {
		gap := verifChoice("fresh-handshakes-in-between", 2*n+1)
		for k := 0; k < gap; k++ {
			next++
			c.Add("a", []byte{byte(next), byte(next >> 8), 7, 7})
			i++
		}
		i++
		ok := c.Add("a", h)
		if i-last <= n {
			// h is among the most recent n handshakes checked (accepted or refused)
			verifAssert("C07.long.recent-handshake-refused", !ok)
			verifReach("C07.long.second-replay-within-history", round == 1)
		}
		last = i
	}
	verifReach("C07.long.done", true)
}

package service

// Harness fakes: scripted sockets that log every call (the effect trace). They are ordinary Go:
// executed symbolically by gosmt and natively in replays.

import (
	"errors"
	"net"
	"time"

	"github.com/Jigsaw-Code/outline-sdk/transport/shadowsocks"
)

type verifTimeoutErr struct{}

func (verifTimeoutErr) Error() string   { return "i/o timeout (fake)" }
func (verifTimeoutErr) Timeout() bool   { return true }
func (verifTimeoutErr) Temporary() bool { return true }

var errVerifFault = errors.New("injected fault")

type verifRead struct {
	n    int      // bytes "received" (content = data if non-nil, else left as is)
	data []byte   // optional content
	addr net.Addr // sender
	err  error
}

type verifWrite struct {
	data []byte // a copy of the bytes written (or an alias when noCopy is set)
	addr net.Addr
}

type verifPacketConn struct {
	name      string
	reads     []verifRead
	readPos   int
	endErr    error // returned when the script is exhausted (default net.ErrClosed)
	writes    []verifWrite
	writeErr  error
	deadlines []time.Time
	closed    int
	local     net.Addr
	readsAfterClose int
	noCopy          bool // keep only the slice header of writes (for symbolic lengths)
}

func (c *verifPacketConn) ReadFrom(p []byte) (int, net.Addr, error) {
	if c.closed > 0 {
		c.readsAfterClose++
	}
	if c.readPos >= len(c.reads) {
		if c.endErr != nil {
			return 0, nil, c.endErr
		}
		return 0, nil, net.ErrClosed
	}
	r := c.reads[c.readPos]
	c.readPos++
	if r.err != nil {
		return 0, r.addr, r.err
	}
	n := r.n
	if r.data != nil {
		n = copy(p, r.data)
	} else if n > len(p) {
		n = len(p)
	}
	return n, r.addr, nil
}

func (c *verifPacketConn) WriteTo(p []byte, addr net.Addr) (int, error) {
	if c.writeErr != nil {
		return 0, c.writeErr
	}
	cp := p
	if !c.noCopy {
		cp = make([]byte, len(p))
		copy(cp, p)
	}
	c.writes = append(c.writes, verifWrite{cp, addr})
	return len(p), nil
}

func (c *verifPacketConn) Close() error { c.closed++; return nil }
func (c *verifPacketConn) LocalAddr() net.Addr {
	if c.local != nil {
		return c.local
	}
	return &net.UDPAddr{IP: net.IPv4(192, 0, 2, 1), Port: 9}
}
func (c *verifPacketConn) SetDeadline(t time.Time) error { return nil }
func (c *verifPacketConn) SetReadDeadline(t time.Time) error {
	c.deadlines = append(c.deadlines, t)
	return nil
}
func (c *verifPacketConn) SetWriteDeadline(t time.Time) error { return nil }

// metrics fakes

type verifUDPConnMetrics struct {
	fromClient []verifPktMetric
	fromTarget []verifPktMetric
	removed    int
	clientAddr net.Addr
	accessKey  string
}

type verifPktMetric struct {
	status string
	a, b   int64
}

func (m *verifUDPConnMetrics) AddPacketFromClient(status string, clientProxyBytes, proxyTargetBytes int64) {
	m.fromClient = append(m.fromClient, verifPktMetric{status, clientProxyBytes, proxyTargetBytes})
}
func (m *verifUDPConnMetrics) AddPacketFromTarget(status string, targetProxyBytes, proxyClientBytes int64) {
	m.fromTarget = append(m.fromTarget, verifPktMetric{status, targetProxyBytes, proxyClientBytes})
}
func (m *verifUDPConnMetrics) RemoveNatEntry() { m.removed++ }

type verifUDPMetrics struct {
	entries []*verifUDPConnMetrics
}

func (m *verifUDPMetrics) AddUDPNatEntry(clientAddr net.Addr, accessKey string) UDPConnMetrics {
	cm := &verifUDPConnMetrics{clientAddr: clientAddr, accessKey: accessKey}
	m.entries = append(m.entries, cm)
	return cm
}

var verifCipherNames = []string{"chacha20-ietf-poly1305", "aes-256-gcm", "aes-192-gcm", "aes-128-gcm"}

func verifKey(cipher int, secret string) *shadowsocks.EncryptionKey {
	k, err := shadowsocks.NewEncryptionKey(verifCipherNames[cipher], secret)
	if err != nil {
		panic(err)
	}
	return k
}

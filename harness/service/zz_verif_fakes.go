package service

// Harness fakes: scripted sockets that log every call (the effect trace). They are ordinary Go:
// executed symbolically by gosmt and natively in replays.

import (
	"context"
	"errors"
	"io"
	"log/slog"
	"net"
	"sync"
	"time"

	"github.com/Jigsaw-Code/outline-sdk/transport"
	"github.com/Jigsaw-Code/outline-sdk/transport/shadowsocks"
	onet "github.com/Jigsaw-Code/outline-ss-server/net"
	"github.com/Jigsaw-Code/outline-ss-server/service/metrics"
)

type verifProxyMetrics = metrics.ProxyMetrics

type verifTimeT = time.Time

var verifIOEOF = io.EOF

type verifTimeoutErr struct{}

func (verifTimeoutErr) Error() string   { return "i/o timeout (fake)" }
func (verifTimeoutErr) Timeout() bool   { return true }
func (verifTimeoutErr) Temporary() bool { return true }

var errVerifFault = errors.New("injected fault")
var verifCtxCanceled, verifCtxDeadline = context.Canceled, context.DeadlineExceeded
var errVerifReset = errors.New("connection reset by peer")

type verifRead struct {
	n    int      // bytes "received" (content = data if non-nil, else left as is)
	data []byte   // optional content
	addr net.Addr // sender
	err  error
}

type verifWrite struct {
	data []byte // a copy of the bytes written (or an alias when noCopy is set)
	addr net.Addr
}

type verifPacketConn struct {
	name            string
	reads           []verifRead
	readPos         int
	endErr          error // returned when the script is exhausted (default net.ErrClosed)
	writes          []verifWrite
	writeErr        error
	deadlines       []time.Time
	closed          int
	local           net.Addr
	readsAfterClose int
	noCopy          bool // keep only the slice header of writes (for symbolic lengths)
	writeCalls      int
	yieldOnDeadline bool
	writeFailAt     int // the k-th write (1-based) fails
	writeFailClosed bool // ... the way a write to a socket closed meanwhile fails
	mu              sync.Mutex
	closedCh        chan struct{}
	// reads wait (instead of timing out) while no read deadline was ever armed, as on a real socket
	blocksWithoutDeadline bool
}

// a socket on which no read deadline was ever armed does not time out: a read on it waits until
// the socket is closed
func (c *verifPacketConn) waitsForever() (bool, chan struct{}) {
	c.mu.Lock()
	defer c.mu.Unlock()
	if _, isTimeout := c.endErr.(verifTimeoutErr); !isTimeout || !c.blocksWithoutDeadline {
		return false, nil
	}
	for _, d := range c.deadlines {
		if !d.IsZero() {
			return false, nil
		}
	}
	if c.closed > 0 {
		return false, nil
	}
	if c.closedCh == nil {
		c.closedCh = make(chan struct{})
	}
	return true, c.closedCh
}

func (c *verifPacketConn) ReadFrom(p []byte) (int, net.Addr, error) {
	if c.closed > 0 {
		c.readsAfterClose++
	}
	if c.readPos >= len(c.reads) {
		if wait, ch := c.waitsForever(); wait {
			<-ch // woken by Close or by a deadline being armed
			c.mu.Lock()
			closed := c.closed > 0
			c.mu.Unlock()
			if closed {
				return 0, nil, net.ErrClosed
			}
		}
		if c.endErr != nil {
			return 0, nil, c.endErr
		}
		return 0, nil, net.ErrClosed
	}
	r := c.reads[c.readPos]
	c.readPos++
	if r.err != nil {
		return 0, r.addr, r.err
	}
	n := r.n
	if r.data != nil {
		n = copy(p, r.data)
	} else if n > len(p) {
		n = len(p)
	}
	return n, r.addr, nil
}

func (c *verifPacketConn) WriteTo(p []byte, addr net.Addr) (int, error) {
	c.mu.Lock()
	c.writeCalls++
	failNow := c.writeFailAt > 0 && c.writeCalls == c.writeFailAt
	c.mu.Unlock()
	if failNow && c.writeFailClosed {
		return 0, &net.OpError{Op: "write", Net: "udp", Err: net.ErrClosed}
	}
	if c.writeErr != nil || failNow {
		return 0, errVerifFault
	}
	cp := p
	if !c.noCopy {
		cp = make([]byte, len(p))
		copy(cp, p)
	}
	c.mu.Lock()
	c.writes = append(c.writes, verifWrite{cp, addr})
	c.mu.Unlock()
	return len(p), nil
}

// Writes returns what was written so far (synchronised with concurrent writers)
func (c *verifPacketConn) Writes() []verifWrite {
	c.mu.Lock()
	defer c.mu.Unlock()
	return append([]verifWrite{}, c.writes...)
}

func (c *verifPacketConn) Close() error {
	c.mu.Lock()
	c.closed++
	if c.closed == 1 && c.closedCh != nil {
		close(c.closedCh)
		c.closedCh = nil
	}
	c.mu.Unlock()
	return nil
}
func (c *verifPacketConn) LocalAddr() net.Addr {
	if c.local != nil {
		return c.local
	}
	return &net.UDPAddr{IP: net.IPv4(192, 0, 2, 1), Port: 9}
}
func (c *verifPacketConn) SetDeadline(t time.Time) error { return nil }
func (c *verifPacketConn) SetReadDeadline(t time.Time) error {
	c.mu.Lock()
	if c.closed > 0 {
		c.mu.Unlock()
		return net.ErrClosed
	}
	c.deadlines = append(c.deadlines, t)
	if !t.IsZero() && c.closedCh != nil && c.closed == 0 {
		close(c.closedCh)
		c.closedCh = nil
	}
	c.mu.Unlock()
	if c.yieldOnDeadline && verifNative() {
		time.Sleep(20 * time.Microsecond) // widen the window after the call for native replays
	}
	return nil
}
func (c *verifPacketConn) SetWriteDeadline(t time.Time) error { return nil }

// metrics fakes

type verifUDPConnMetrics struct {
	fromClient []verifPktMetric
	fromTarget []verifPktMetric
	removed    int
	clientAddr net.Addr
	accessKey  string
	onRemove   func() // optional: something else happens while the removal is being reported
}

type verifPktMetric struct {
	status string
	a, b   int64
}

func (m *verifUDPConnMetrics) AddPacketFromClient(status string, clientProxyBytes, proxyTargetBytes int64) {
	m.fromClient = append(m.fromClient, verifPktMetric{status, clientProxyBytes, proxyTargetBytes})
}
func (m *verifUDPConnMetrics) AddPacketFromTarget(status string, targetProxyBytes, proxyClientBytes int64) {
	m.fromTarget = append(m.fromTarget, verifPktMetric{status, targetProxyBytes, proxyClientBytes})
}
func (m *verifUDPConnMetrics) RemoveNatEntry() {
	m.removed++
	if m.onRemove != nil {
		m.onRemove()
	}
}

type verifUDPMetrics struct {
	mu      sync.Mutex
	entries []*verifUDPConnMetrics
	onAdd   func(cm *verifUDPConnMetrics)
}

func (m *verifUDPMetrics) AddUDPNatEntry(clientAddr net.Addr, accessKey string) UDPConnMetrics {
	cm := &verifUDPConnMetrics{clientAddr: clientAddr, accessKey: accessKey}
	m.mu.Lock()
	m.entries = append(m.entries, cm)
	m.mu.Unlock()
	if m.onAdd != nil {
		m.onAdd(cm)
	}
	return cm
}

var verifCipherNames = []string{"chacha20-ietf-poly1305", "aes-256-gcm", "aes-192-gcm", "aes-128-gcm"}

func verifKey(cipher int, secret string) *shadowsocks.EncryptionKey {
	k, err := shadowsocks.NewEncryptionKey(verifCipherNames[cipher], secret)
	if err != nil {
		panic(err)
	}
	return k
}

// ---- stream fakes ----

type verifSRead struct {
	data []byte
	err  error
}

type verifStreamConn struct {
	writeBrokenFrom  int // the k-th write (1-based) and all later ones fail like writes to a peer that went away
	closedOverUnread int // Close was called while data sent by the peer was still unread
	name                string
	reads               []verifSRead
	readPos             int
	off                 int
	endErr              error // after the script (default io.EOF)
	written             []byte
	writeCalls          int
	writeErr            error
	events              []string
	deadlines           []time.Time
	remote              net.Addr
	local               net.Addr
	closed              int
	closedRead          int
	closedWrite         int
	bytesRead           int
	readCalls           int
	readsAfterEnd       int
	writesAfterClose    int
	readsAfterCloseRead int
	connDeadlines       []time.Time // SetDeadline calls (read and write side together)
	closeWriteErr       error
	eofWithData         bool           // the last bytes of the script come together with the end-of-stream error
	bulk                int            // after the script: this many more bytes arrive (content irrelevant)
	onRead              func(call int) // optional hook run at the start of each Read
	deadlineUnsupported bool
	glog                *[]string // optional cross-connection event log
}

func (c *verifStreamConn) ev(name string) {
	c.events = append(c.events, name)
	if c.glog != nil {
		*c.glog = append(*c.glog, c.name+":"+name)
	}
}

func verifEOF() error { return verifIOEOF }

func (c *verifStreamConn) Read(b []byte) (int, error) {
	c.readCalls++
	c.ev("Read")
	if c.onRead != nil {
		c.onRead(c.readCalls)
	}
	if c.closed > 0 {
		return 0, net.ErrClosed // reading from a connection this side has closed
	}
	if c.closedRead > 0 {
		// the read side was shut down: the kernel reports end of stream from now on
		c.readsAfterCloseRead++
		return 0, verifIOEOF
	}
	for c.readPos < len(c.reads) {
		r := &c.reads[c.readPos]
		if r.err != nil {
			c.readPos++
			return 0, r.err
		}
		if c.off >= len(r.data) {
			c.readPos++
			c.off = 0
			continue
		}
		n := copy(b, r.data[c.off:])
		c.off += n
		if c.off >= len(r.data) {
			c.readPos++
			c.off = 0
		}
		c.bytesRead += n
		if c.eofWithData && c.readPos >= len(c.reads) && c.bulk == 0 {
			// io.Reader allows the final bytes and the end of the stream in one call
			c.readsAfterEnd++
			if c.glog != nil {
				*c.glog = append(*c.glog, c.name+":ReadEnd")
			}
			if c.endErr != nil {
				return n, c.endErr
			}
			return n, verifIOEOF
		}
		return n, nil
	}
	if c.bulk > 0 {
		n := len(b)
		if n > c.bulk {
			n = c.bulk
		}
		c.bulk -= n
		c.bytesRead += n
		return n, nil
	}
	c.readsAfterEnd++
	if c.glog != nil {
		*c.glog = append(*c.glog, c.name+":ReadEnd")
	}
	if c.endErr != nil {
		return 0, c.endErr
	}
	return 0, verifIOEOF
}

func (c *verifStreamConn) Write(b []byte) (int, error) {
	c.writeCalls++
	c.ev("Write")
	if c.writeErr != nil {
		return 0, c.writeErr
	}
	if c.writeBrokenFrom > 0 && c.writeCalls >= c.writeBrokenFrom {
		// the peer has gone away: broken pipe / connection reset on this and every later write
		return 0, &net.OpError{Op: "write", Net: "tcp", Err: errVerifFault}
	}
	if c.closed > 0 || c.closedWrite > 0 {
		c.writesAfterClose++
		return 0, net.ErrClosed
	}
	c.written = append(c.written, b...)
	return len(b), nil
}

func (c *verifStreamConn) Close() error {
	if c.closed == 0 && c.closedOverUnread == 0 && (c.readPos < len(c.reads) || c.bulk > 0) {
		// closing a socket over data the peer has sent and nobody read makes the kernel answer
		// with a reset, and the peer then loses what it had not read yet
		c.closedOverUnread = 1
	}
	c.closed++
	c.ev("Close")
	return nil
}
func (c *verifStreamConn) CloseRead() error { c.closedRead++; c.ev("CloseRead"); return nil }
func (c *verifStreamConn) CloseWrite() error {
	c.closedWrite++
	c.ev("CloseWrite")
	return c.closeWriteErr
}

// a logger with every level enabled that writes nowhere
func verifDebugLogger() *slog.Logger {
	return slog.New(slog.NewTextHandler(io.Discard, &slog.HandlerOptions{Level: slog.LevelDebug}))
}
func (c *verifStreamConn) LocalAddr() net.Addr {
	if c.local != nil {
		return c.local
	}
	return &net.TCPAddr{IP: net.IPv4(192, 0, 2, 1), Port: 443}
}
func (c *verifStreamConn) RemoteAddr() net.Addr { return c.remote }
func (c *verifStreamConn) SetDeadline(t time.Time) error {
	c.ev("SetDeadline")
	c.connDeadlines = append(c.connDeadlines, t)
	return nil
}
func (c *verifStreamConn) SetReadDeadline(t time.Time) error {
	if c.deadlineUnsupported {
		return errVerifFault // a transport without deadlines
	}
	c.ev("SetReadDeadline")
	c.deadlines = append(c.deadlines, t)
	return nil
}
func (c *verifStreamConn) SetWriteDeadline(t time.Time) error { return nil }

// client-side encoder: a real Shadowsocks writer into a buffer
type verifBuf struct{ b []byte }

func (w *verifBuf) Write(p []byte) (int, error) { w.b = append(w.b, p...); return len(p), nil }

func verifClientStream(key *shadowsocks.EncryptionKey, chunks ...[]byte) []byte {
	buf := &verifBuf{}
	w := shadowsocks.NewWriter(buf, key)
	for _, c := range chunks {
		if _, err := w.Write(c); err != nil {
			panic(err)
		}
	}
	return buf.b
}

type verifTCPMetrics struct {
	authenticated []string
	closed        []string
	closedData    []int64
	probes        []string
	probeBytes    []int64
	order         []string
	onAuth        func() // optional hook: something else happens while this connection is between authentication and its first relayed byte
}

func (m *verifTCPMetrics) AddAuthenticated(accessKey string) {
	m.authenticated = append(m.authenticated, accessKey)
	m.order = append(m.order, "auth")
	if m.onAuth != nil {
		m.onAuth()
	}
}
func (m *verifTCPMetrics) AddClosed(status string, data verifProxyMetrics, duration time.Duration) {
	m.closed = append(m.closed, status)
	m.closedData = append(m.closedData, data.ClientProxy, data.ProxyTarget, data.TargetProxy, data.ProxyClient)
	m.order = append(m.order, "closed")
}
func (m *verifTCPMetrics) AddProbe(status, drainResult string, clientProxyBytes int64) {
	m.probes = append(m.probes, status+"/"+drainResult)
	m.probeBytes = append(m.probeBytes, clientProxyBytes)
	m.order = append(m.order, "probe")
}

func verifNewWriterWithSalt(w io.Writer, key *shadowsocks.EncryptionKey, sg shadowsocks.SaltGenerator) *shadowsocks.Writer {
	sw := shadowsocks.NewWriter(w, key)
	sw.SetSaltGenerator(sg)
	return sw
}

type transportStreamConn = transport.StreamConn
type contextContext = context.Context

func contextBackground() context.Context { return context.Background() }

func onetNewConnectionError(status, msg string, cause error) error {
	return onet.NewConnectionError(status, msg, cause)
}

func contextWithCancel() (context.Context, context.CancelFunc) {
	return context.WithCancel(context.Background())
}

// the handshake deadline is armed before the first read and is never changed afterwards (arming
// the same instant again changes nothing)
func verifOneHandshakeDeadline(c *verifStreamConn) bool {
	if len(c.deadlines) == 0 {
		return false
	}
	ok := verifAll(!c.deadlines[0].IsZero(), verifIndexEv(c.events, "SetReadDeadline") < verifIndexEv(c.events, "Read"))
	for _, d := range c.deadlines[1:] {
		ok = verifAll(ok, d.Equal(c.deadlines[0]))
	}
	return ok
}

// the handshake deadline was armed, never changed, and finally cleared: nothing limits the
// connection any more
func verifHandshakeDeadlineCleared(c *verifStreamConn) bool {
	n := len(c.deadlines)
	if n < 2 {
		return false
	}
	ok := verifAll(!c.deadlines[0].IsZero(), c.deadlines[n-1].IsZero())
	for _, d := range c.deadlines[1 : n-1] {
		ok = verifAll(ok, d.Equal(c.deadlines[0]))
	}
	return ok
}

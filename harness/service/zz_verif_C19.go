package service

// C19 — shared state used from several goroutines: no unsynchronised conflicting accesses
// (happens-before race detection over all explored schedules; natively `go test -race`).

import (
	"container/list"
	"net"
	"net/netip"
	"sync"
	"time"
)

func verifPar(fs ...func()) {
	var wg sync.WaitGroup
	for _, f := range fs {
		wg.Add(1)
		f := f
		go func() {
			defer wg.Done()
			f()
		}()
	}
	wg.Wait()
}

func VH_C19_replaycache() {
	for rep := 0; rep < verifRepeat(25); rep++ {
		verifBody_C19_replaycache()
	}
}

func verifBody_C19_replaycache() {
	verifRaceDetect(true)
	verifSched(1)
	if verifNative() {
		// natively the window is a copy of the history: make the history long and keep adding
		// while it is resized (growing and shrinking)
		c := NewReplayCache(4000)
		for i := 0; i < 3000; i++ {
			c.Add("a", []byte{9, byte(i >> 16), byte(i >> 8), byte(i), 0, 0, 0, 0})
		}
		added := make([][]byte, 400)
		for i := range added {
			added[i] = []byte{7, byte(i >> 8), byte(i), 1, 2, 3, 4, 5}
		}
		fresh := make([]bool, len(added))
		verifPar(
			func() {
				for i, s := range added {
					fresh[i] = c.Add("a", s)
				}
			},
			func() { c.Resize(9000) },
		)
		for i, s := range added {
			verifAssert("C19.replaycache.added-during-resize-is-remembered", !fresh[i] || !c.Add("a", s))
		}
		verifReach("C19.replaycache.done", true)
		return
	}
	c := NewReplayCache(2)
	salt1, salt2 := []byte{1, 2, 3, 4}, []byte{5, 6, 7, 8}
	var f1, f2 bool
	verifPar(
		func() { f1 = c.Add("a", salt1) },
		func() { f2 = c.Add("a", salt2) },
		func() { c.Resize(3) },
	)
	// growing never forgets: both are remembered afterwards
	verifAssert("C19.replaycache.added-during-resize-is-remembered", verifAll(f1, f2, !c.Add("a", salt1), !c.Add("a", salt2)))
	verifReach("C19.replaycache.done", true)
}

func VH_C19_cipherlist() {
	for rep := 0; rep < verifRepeat(1500); rep++ {
		verifBody_C19_cipherlist()
	}
}

func verifBody_C19_cipherlist() {
	verifRaceDetect(true)
	verifSched(1)
	oldLen, scale := 2, 1
	if verifNative() {
		oldLen, scale = 400, 200 // long lists widen the windows natively
	}
	mk := func(id string, n int) *list.List {
		l := list.New()
		for i := 0; i < n; i++ {
			e := MakeCipherEntry(id, verifKey(0, "s3"), "s3")
			l.PushBack(&e)
		}
		return l
	}
	cl := NewCipherList()
	cl.Update(mk("old", oldLen))
	ip := netip.AddrFrom4([4]byte{203, 0, 113, 5})
	ip2 := netip.AddrFrom4([4]byte{203, 0, 113, 6})
	snap := cl.SnapshotForClientIP(ip)
	newLen := (1 + 2*verifChoice("new-list-longer", 2)) * scale
	var s []*list.Element
	fresh := mk("new", newLen)
	verifParStart(make(chan struct{}),
		func() { s = cl.SnapshotForClientIP(ip) },
		func() { cl.MarkUsedByClientIP(snap[1], ip) },
		func() { cl.Update(fresh) },
		func() { cl.MarkUsedByClientIP(snap[0], ip2) }, // the key at the front, used from another address
	)
	// the snapshot equals the one of some sequential order: the whole old list or the whole new one
	nOld, nNew, nNil := 0, 0, 0
	for _, el := range s {
		switch {
		case el == nil:
			nNil++
		case el.Value.(*CipherEntry).ID == "new":
			nNew++
		default:
			nOld++
		}
	}
	verifAssert("C19.cipherlist.snapshot-of-one-list", nNil == 0 && ((nOld == oldLen && nNew == 0) || (nOld == 0 && nNew == newLen)))
	verifReach("C19.cipherlist.done", true)
}

func VH_C19_natmap() {
	for rep := 0; rep < verifRepeat(150); rep++ {
		verifBody_C19_natmap()
	}
}

func verifBody_C19_natmap() {
	verifRaceDetect(true)
	verifSched(1)
	nm := newNATmap(time.Minute, &verifUDPMetrics{}, noopLogger())
	key := verifKey(0, "s1")
	a1 := (&net.UDPAddr{IP: net.IPv4(198, 51, 100, 7), Port: 4001}).String()
	a2 := (&net.UDPAddr{IP: net.IPv4(198, 51, 100, 7), Port: 4002}).String()
	nm.set(a1, &verifPacketConn{}, key, &verifUDPConnMetrics{})
	verifPar(
		func() { nm.Get(a1) },
		func() { nm.set(a2, &verifPacketConn{}, key, &verifUDPConnMetrics{}) },
		func() { nm.del(a1) },
		func() { nm.Close() },
	)
	verifReach("C19.natmap.done", true)
}

// the handler goroutine writes through a natconn while its reader goroutine reads
func VH_C19_natconn() {
	for rep := 0; rep < verifRepeat(150); rep++ {
		verifBody_C19_natconn()
	}
}

func verifBody_C19_natconn() {
	verifRaceDetect(true)
	verifSched(1)
	pc := &verifPacketConn{}
	c := &natconn{PacketConn: pc, defaultTimeout: time.Minute}
	dns := &net.UDPAddr{IP: net.IPv4(8, 8, 8, 8), Port: 53}
	verifPar(
		func() { c.onWrite(dns) },
		func() { c.onRead(dns) },
	)
	verifReach("C19.natconn.done", true)
}

func VH_C19_listeners_packet() {
	for rep := 0; rep < verifRepeat(150); rep++ {
		verifBody_C19_listeners_packet()
	}
}

func verifBody_C19_listeners_packet() {
	verifRaceDetect(true)
	verifSched(1)
	delete(verifBoundPC, "127.0.0.1:9000")
	ml := NewMultiPacketListener("127.0.0.1:9000", nil)
	h1, _ := ml.Acquire()
	verifPar(
		func() {
			h2, err := ml.Acquire()
			if err == nil {
				h2.Close()
			}
		},
		func() { h1.Close() },
	)
	verifQuiesce()
	verifReach("C19.listeners.packet.done", true)
}

func VH_C19_listeners_stream() {
	for rep := 0; rep < verifRepeat(150); rep++ {
		verifBody_C19_listeners_stream()
	}
}

func verifBody_C19_listeners_stream() {
	verifRaceDetect(true)
	verifSched(1)
	ms := NewMultiStreamListener("127.0.0.1:0", nil)
	s1, _ := ms.Acquire()
	verifPar(
		func() {
			s2, err := ms.Acquire()
			if err == nil {
				s2.Close()
			}
		},
		func() { s1.Close() },
	)
	verifQuiesce()
	verifReach("C19.listeners.stream.done", true)
}

// verifParStart runs fs as goroutines released together and waits for them
func verifParStart(start chan struct{}, fs ...func()) {
	var wg sync.WaitGroup
	for _, f := range fs {
		wg.Add(1)
		f := f
		go func() {
			defer wg.Done()
			<-start
			f()
		}()
	}
	close(start)
	wg.Wait()
}

// C08 / C19: connections of one access key mark and recognise salts at the same time
func VH_C08_concurrent_salts() {
	for rep := 0; rep < verifRepeat(300); rep++ {
		verifBody_C08_concurrent_salts()
	}
}

func verifBody_C08_concurrent_salts() {
	verifRaceDetect(true)
	verifSched(1)
	e := MakeCipherEntry("id-0", verifKey(0, "s1"), "s1")
	sg := e.SaltGenerator
	s0, s1, s2 := make([]byte, 32), make([]byte, 32), make([]byte, 32)
	verifAssert("C08.concurrent.first-salt", sg.GetSalt(s0) == nil)
	ok0 := false
	verifPar(
		func() { sg.GetSalt(s1) },
		func() { sg.GetSalt(s2) },
		func() { ok0 = sg.IsServerSalt(s0) },
	)
	verifAssert("C08.concurrent.recognised-while-others-are-issued|C06.concurrent.reflected-salt-recognised-under-load", ok0)
	verifAssert("C08.concurrent.issued-salts-recognised", sg.IsServerSalt(s1) && sg.IsServerSalt(s2))
	verifReach("C08.concurrent.done", true)
}

package service

import (
	"net"

	"github.com/Jigsaw-Code/outline-sdk/transport/shadowsocks"
	"github.com/shadowsocks/go-shadowsocks2/socks"
)

// translator selftest: checksum, replay cache, server-salt marks (real HKDF/HMAC natively vs the
// engine's concrete computation), SOCKS address parsing and formatting, packet round trips
func VH_ST_service() {
	r := &verifRng{s: verifSeed() + 11}
	ids := []string{"", "a", "key-17", "0123456789"}
	for i := 0; i < 30; i++ {
		salt := r.bytes([]int{16, 24, 32}[i%3])
		verifRecord("prehash", uint64(preHash(ids[i%4], salt)))
	}
	c := NewReplayCache(3)
	for i := 0; i < 40; i++ {
		salt := []byte{byte(r.next() % 5), 0, 0, byte(r.next() % 2)}
		verifRecord("replay-add", verifB2U(c.Add(ids[i%2], salt)))
		if i == 20 {
			c.Resize(2)
		}
	}
	for ci := 0; ci < 4; ci++ {
		key := verifKey(ci, "secret-"+string(rune('a'+ci)))
		e := MakeCipherEntry("id", key, "secret-"+string(rune('a'+ci)))
		for i := 0; i < 4; i++ {
			salt := r.bytes(key.SaltSize())
			verifRecord("is-server-salt", verifB2U(e.SaltGenerator.IsServerSalt(salt)))
		}
		gen := NewServerSaltGenerator("secret-x").(serverSaltGenerator)
		prefix := r.bytes(12)
		tag := gen.getTag(prefix)
		verifRecord("hmac-tag", uint64(tag[0])<<24|uint64(tag[1])<<16|uint64(tag[2])<<8|uint64(tag[3]))
		// packet round trip lengths
		pt := r.bytes(i2(ci))
		pkt := verifPack(key, pt)
		verifRecord("pack-len", uint64(len(pkt)))
		out, err := shadowsocks.Unpack(nil, pkt, key)
		verifRecord("unpack-ok", verifB2U(err == nil && len(out) == len(pt)))
		pkt[len(pkt)-1] ^= 1
		_, err = shadowsocks.Unpack(nil, pkt, key)
		verifRecord("unpack-corrupt", verifB2U(err == nil))
	}
	addrs := []string{"1.2.3.4:80", "[2001:db8::1]:443", "example.com:53", "[fe80::1%eth0]:9", "[::ffff:10.0.0.1]:1", ":53", "bad"}
	for _, a := range addrs {
		sa := socks.ParseAddr(a)
		verifRecord("socks-len-"+a, uint64(len(sa)))
		if sa != nil {
			verifRecord("socks-str-"+a, verifStrSum(sa.String()))
			verifRecord("socks-split-"+a, uint64(len(socks.SplitAddr(append([]byte(sa), 1, 2, 3)))))
		}
	}
	for i := 0; i < 10; i++ {
		ua := &net.UDPAddr{IP: net.IP(r.bytes([]int{4, 16}[i%2])), Port: int(r.next() % 65536)}
		verifRecord("udpaddr-str", verifStrSum(ua.String()))
		verifRecord("isdns", verifB2U(isDNS(ua)))
		sa := socks.ParseAddr(ua.String())
		verifRecord("udpaddr-socks", uint64(len(sa)))
	}
	verifRecord("max-addr-len", uint64(maxAddrLen))
}

func i2(i int) int { return 3 + 5*i }

package service

// C12 / C13 — the listener manager under arbitrary short operation sequences, compared with a
// small reference model after every step: which addresses are bound, which handle gets which
// connection or datagram, what closed handles answer, what is released at the end.

import (
	"errors"
	"net"
)

type verifLMHandle struct {
	stream bool
	addr   int
	s      StreamListener
	p      net.PacketConn
	open   bool
	acc    chan verifAcc // pending asynchronous AcceptStream, if any
	rd     chan verifPkt // pending asynchronous ReadFrom, if any
}

var verifLMAddrs = []string{"127.0.0.1:9501", "127.0.0.1:9502"}

func verifLMOps(steps int) {
	for _, a := range verifLMAddrs {
		delete(verifBoundPC, a)
	}
	lm := NewListenerManager()
	var hs []*verifLMHandle
	var conns [][]int          // per address: ids of dialled connections not yet delivered
	delivered := map[int]int{} // connection id -> times delivered
	dgSent, dgGot := 0, map[byte]int{}
	conns = make([][]int, len(verifLMAddrs))
	openOn := func(stream bool, addr int) int {
		n := 0
		for _, h := range hs {
			if h.open && h.stream == stream && h.addr == addr {
				n++
			}
		}
		return n
	}
	// collect what completed since the last step and compare with the model
	settle := func() {
		verifQuiesce()
		for _, h := range hs {
			if h.acc != nil && len(h.acc) == 1 {
				a := <-h.acc
				h.acc = nil
				if a.err != nil {
					verifAssert("C12.ops.accept-fails-only-on-a-closed-handle", errors.Is(a.err, net.ErrClosed) && !h.open)
				} else {
					id := verifTCPConnID(a.conn)
					verifAssert("C12.ops.delivered-a-dialled-connection", id >= 0)
					delivered[id]++
					verifAssert("C12.ops.connection-delivered-at-most-once", delivered[id] == 1)
					// it is one of the connections waiting on that address
					found := false
					q := conns[h.addr]
					for i, c := range q {
						if c == id {
							conns[h.addr] = append(append([]int{}, q[:i]...), q[i+1:]...)
							found = true
							break
						}
					}
					verifAssert("C12.ops.delivered-on-its-own-address", found)
					if a.conn != nil {
						a.conn.Close()
					}
				}
			}
			if h.rd != nil && len(h.rd) == 1 {
				p := <-h.rd
				h.rd = nil
				if p.err != nil {
					verifAssert("C12.ops.read-fails-only-on-a-closed-handle", errors.Is(p.err, net.ErrClosed) && !h.open)
				} else {
					ok := p.n == 2 && p.data[0] == p.data[1] && p.data[0] >= 1 && int(p.data[0]) <= dgSent
					verifAssert("C12.ops.datagram-intact", ok)
					if ok {
						dgGot[p.data[0]]++
						verifAssert("C12.ops.datagram-delivered-at-most-once", dgGot[p.data[0]] == 1)
					}
				}
			}
		}
		// a pending accept/read of a closed handle has been unblocked; one of an open handle stays
		// pending only if nothing is waiting for it
		for _, h := range hs {
			if !h.open {
				verifAssert("C12.ops.closing-unblocks-pending-calls", h.acc == nil && h.rd == nil)
			}
			if h.open && h.stream && h.acc != nil {
				verifAssert("C12.ops.never-lost-while-a-handle-accepts", len(conns[h.addr]) == 0)
			}
		}
	}
	for i := 0; i < steps; i++ {
		op := verifChoice("op", 7)
		addr := verifChoice("addr", len(verifLMAddrs))
		switch op {
		case 0, 1:
			if len(hs) >= 3 {
				continue
			}
			h := &verifLMHandle{stream: op == 0, addr: addr, open: true}
			var err error
			if h.stream {
				h.s, err = lm.ListenStream(verifLMAddrs[addr])
			} else {
				h.p, err = lm.ListenPacket(verifLMAddrs[addr])
			}
			verifAssert("C13.ops.listen-succeeds", err == nil)
			if err != nil {
				return
			}
			hs = append(hs, h)
		case 2:
			if len(hs) == 0 {
				continue
			}
			h := hs[verifChoice("handle", len(hs))]
			if !h.stream && !h.open {
				continue // a packet handle is closed once and only once (documented precondition of its Close)
			}
			var err error
			if h.stream {
				err = h.s.Close() // closing a stream handle again is a no-op
			} else {
				err = h.p.Close()
			}
			verifAssert("C12.ops.close-ok", err == nil)
			wasLast := h.open && openOn(h.stream, h.addr) == 1
			h.open = false
			if wasLast && h.stream {
				// connections nobody can take any more are closed by the server
				verifQuiesce()
				for _, id := range conns[h.addr] {
					verifAssert("C12.ops.orphans-closed-with-the-last-handle", verifTCPPeerClosed(id))
				}
				conns[h.addr] = nil
			}
		case 3:
			ta, _ := net.ResolveTCPAddr("tcp", verifLMAddrs[addr])
			id := verifDialTCP(ta)
			up := openOn(true, addr) > 0
			verifAssert("C12.ops.bound-iff-a-handle-is-open", (id >= 0) == up)
			if id >= 0 {
				conns[addr] = append(conns[addr], id)
			}
		case 4:
			if len(hs) == 0 {
				continue
			}
			h := hs[verifChoice("handle", len(hs))]
			if !h.stream || h.acc != nil {
				continue
			}
			h.acc = verifAcceptAsync(h.s)
		case 5:
			pc := verifBoundPC[verifLMAddrs[addr]]
			up := openOn(false, addr) > 0
			verifAssert("C12.ops.packet-socket-open-iff-a-handle-is-open", (pc != nil && pc.Closed() == 0) == up)
			if !up || dgSent-len(dgGot) >= 1 {
				continue // at most one datagram in flight (the socket model hands them over one by one)
			}
			dgSent++
			go verifInject(pc, []byte{byte(dgSent), byte(dgSent)}, &net.UDPAddr{IP: net.IPv4(203, 0, 113, 5), Port: 4000})
		case 6:
			if len(hs) == 0 {
				continue
			}
			h := hs[verifChoice("handle", len(hs))]
			if h.stream || h.rd != nil {
				continue
			}
			h.rd = verifReadAsync(h.p)
		}
		settle()
	}
	// release everything: nothing keeps running, addresses can be bound again
	for _, h := range hs {
		if h.open {
			if h.stream {
				h.s.Close()
			} else {
				h.p.Close()
			}
			h.open = false
		}
	}
	settle()
	verifAssert("C12.ops.nothing-running-after-release", verifBlockedIn(verifAcceptLoop) == 0 && verifBlockedIn(verifReadLoop) == 0)
	for a := range verifLMAddrs {
		ta, _ := net.ResolveTCPAddr("tcp", verifLMAddrs[a])
		ln, err := net.ListenTCP("tcp", ta)
		verifAssert("C12.ops.address-released", err == nil)
		if err == nil {
			ln.Close()
		}
		s, err := lm.ListenStream(verifLMAddrs[a])
		verifAssert("C13.ops.manager-usable-afterwards", err == nil)
		if err == nil {
			s.Close()
		}
	}
	verifQuiesce()
	verifReach("C12.ops.done", true)
}

func VH_C12_ops() { verifLMOps(4) }

func VH_C12_ops_T() { verifLMOps(5) }

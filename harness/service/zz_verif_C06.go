package service

// C06 / C08 / C15(handler side) — unauthenticated input is absorbed silently until EOF/timeout;
// replays and reflected server salts are treated the same; metrics calls match.

import (
	"bytes"
	"container/list"
	"context"
	"github.com/Jigsaw-Code/outline-sdk/transport/shadowsocks"
	"io"
	"net"
	"net/netip"
	"time"

	"github.com/Jigsaw-Code/outline-sdk/transport"
)

type verifDialer struct {
	dials   []string
	conn    *verifStreamConn
	dialErr error
}

func (d *verifDialer) DialStream(ctx context.Context, addr string) (transport.StreamConn, error) {
	d.dials = append(d.dials, addr)
	if d.dialErr != nil {
		return nil, d.dialErr
	}
	return d.conn, nil
}

func verifCountEv(evs []string, name string) int {
	n := 0
	for _, e := range evs {
		if e == name {
			n++
		}
	}
	return n
}

func verifIndexEv(evs []string, name string) int {
	for i, e := range evs {
		if e == name {
			return i
		}
	}
	return -1
}

func verifLastIndexEv(evs []string, name string) int {
	k := -1
	for i, e := range evs {
		if e == name {
			k = i
		}
	}
	return k
}

// Runs Handle on a scripted client and checks the probe-resistance obligations.
func verifC06Run(conn *verifStreamConn, cl CipherList, cache *ReplayCache, wantStatus string, timeout bool, total int) (*verifTCPMetrics, *verifDialer) {
	if timeout {
		conn.endErr = verifTimeoutErr{}
	}
	if verifC06Reset {
		// the client resets the connection instead of closing it
		conn.endErr = &net.OpError{Op: "read", Net: "tcp", Source: conn.LocalAddr(), Addr: conn.remote, Err: errVerifReset}
	}
	dialer := &verifDialer{conn: &verifStreamConn{name: "target", remote: &net.TCPAddr{IP: net.IPv4(93, 184, 216, 34), Port: 80}}}
	h := NewStreamHandler(NewShadowsocksStreamAuthenticator(cl, cache, nil, nil), tcpReadTimeout)
	h.SetTargetDialer(dialer)
	if verifC06Debug {
		// the server run with -verbose: what happens to a refused connection must not depend on it
		verifDebugLogging(true)
		defer verifDebugLogging(false)
		h.SetLogger(verifDebugLogger())
	}
	m := &verifTCPMetrics{}
	t0 := time.Now()
	ctx := context.Background()
	if verifC06Ctx != nil {
		ctx = verifC06Ctx
	}
	h.Handle(ctx, conn, m)
	t1 := time.Now()

	verifAssert("C06.no-write", conn.writeCalls == 0 && len(conn.written) == 0)
	verifAssert("C06.no-close-write", conn.closedWrite == 0)
	verifAssert("C06.no-dial", len(dialer.dials) == 0)
	// everything the client sent was consumed, and reading went on until EOF / timeout
	verifAssert("C06.read-everything", conn.bytesRead == total && conn.readPos == len(conn.reads))
	verifAssert("C06.read-until-end", conn.readsAfterEnd >= 1)
	// closed only after the terminator was observed
	verifAssert("C06.closed-once-at-end", conn.closed == 1 && conn.events[len(conn.events)-1] == "Close")
	lastRead := verifLastIndexEv(conn.events, "Read")
	verifAssert("C06.close-after-last-read", verifIndexEv(conn.events, "Close") > lastRead)
	// one read deadline, set before the first read, derived from the accept time only
	verifAssert("C06.one-deadline|C07.refused-handshake-keeps-the-probe-deadline|C08.refused-handshake-keeps-the-probe-deadline", verifOneHandshakeDeadline(conn))
	if len(conn.deadlines) >= 1 && verifDeadlineValue {
		d := conn.deadlines[0]
		verifAssert("C06.deadline-is-accept-plus-timeout", !d.Before(t0.Add(tcpReadTimeout)) && !d.After(t1.Add(tcpReadTimeout)))
	}
	// metrics: probe reported exactly once with the byte count, then closed once with the status
	drain := "eof"
	if timeout {
		drain = "timeout"
	}
	if verifC06Reset {
		drain = "other"
	}
	verifAssert("C15.probe-once", len(m.probes) == 1 && m.probes[0] == wantStatus+"/"+drain)
	for _, pr := range m.probes {
		verifAssert("C20.probe-report-free-of-client-address", !verifLabelLeaksAddr(pr, conn.remote))
	}
	for _, st := range m.closed {
		verifAssert("C20.close-status-free-of-client-address", !verifLabelLeaksAddr(st, conn.remote))
	}
	verifAssert("C15.probe-bytes", len(m.probeBytes) == 1 && m.probeBytes[0] == int64(total))
	verifAssert("C15.closed-once", len(m.closed) == 1 && m.closed[0] == wantStatus)
	verifAssert("C15.no-auth-report", len(m.authenticated) == 0)
	// the authenticated report is what starts a tunnel in the metrics (see VH_C17_pairing)
	verifAssert("C17.unauthenticated-connection-starts-no-tunnel", len(m.authenticated) == 0)
	verifAssert("C15.order", len(m.order) == 2 && len(m.probes) == 1 && len(m.closed) == 1) // one probe report and one close, nothing else
	verifAssert("C15.bytes", m.closedData[0] == int64(total) && m.closedData[1] == 0 && m.closedData[2] == 0 && m.closedData[3] == 0)
	return m, dialer
}

var verifC06Debug bool

var verifProbeLens = []int{0, 1, 49, 50, 51, 73}

// the deadline *value* obligation (64-bit clock arithmetic) is discharged in VH_C06_random only;
// the other harnesses check that the single deadline call precedes the first read (so it cannot
// depend on content)
var verifDeadlineValue = false

var verifC06Ctx context.Context
var verifC06Reset bool

// a listener whose key list is empty (all keys of a port removed by a reload) treats every
// connection like any other invalid probe
func VH_C06_empty_key_list() {
	verifDeadlineValue = true
	defer func() { verifDeadlineValue = false }()
	cl := NewCipherList()
	l1 := verifProbeLens[verifChoice("len1", len(verifProbeLens))]
	l2 := []int{0, 7}[verifChoice("len2", 2)]
	conn := &verifStreamConn{name: "client", remote: &net.TCPAddr{IP: net.IPv4(203, 0, 113, 5), Port: 50000}}
	if l1 > 0 {
		conn.reads = append(conn.reads, verifSRead{data: verifBytes("p1", l1)})
	}
	if l2 > 0 {
		conn.reads = append(conn.reads, verifSRead{data: verifBytes("p2", l2)})
	}
	verifC06Run(conn, cl, nil, "ERR_CIPHER", verifFlag("timeout"), l1+l2)
	verifReach("C06.empty-list.long", l1+l2 >= 50)
}

// C15: a probe that ends with a connection reset (neither FIN nor timeout) is still reported
// once, with its byte count, and closed once
func VH_C15_probe_reset() {
	verifC06Reset = true
	defer func() { verifC06Reset = false }()
	cl, _, _ := verifMakeList(1, 1, false)
	l1 := []int{50, 73}[verifChoice("len1", 2)]
	l2 := []int{0, 7}[verifChoice("len2", 2)]
	conn := &verifStreamConn{name: "client", remote: &net.TCPAddr{IP: net.IPv4(203, 0, 113, 5), Port: 50000}}
	conn.reads = append(conn.reads, verifSRead{data: verifBytes("p1", l1)})
	if l2 > 0 {
		conn.reads = append(conn.reads, verifSRead{data: verifBytes("p2", l2)})
	}
	verifC06Run(conn, cl, nil, "ERR_CIPHER", false, l1+l2)
	verifReach("C15.probe-reset.done", true)
}

// arbitrary bytes of the classic probe lengths, delivered in one or two reads
func VH_C06_random() {
	verifDeadlineValue = true
	n := 1 + verifChoice("nkeys", 1+verifTier())
	cl, _, _ := verifMakeList(n, 2, false)
	l1 := verifProbeLens[verifChoice("len1", len(verifProbeLens))]
	l2 := []int{0, 7, 60}[verifChoice("len2", 3)]
	conn := &verifStreamConn{name: "client", remote: &net.TCPAddr{IP: net.IPv4(203, 0, 113, 5), Port: 50000}}
	if l1 > 0 {
		conn.reads = append(conn.reads, verifSRead{data: verifBytes("p1", l1)})
	}
	if l2 > 0 {
		conn.reads = append(conn.reads, verifSRead{data: verifBytes("p2", l2)})
	}
	var cache *ReplayCache
	if verifFlag("cache-on") {
		c := NewReplayCache(3)
		cache = &c
	}
	verifC06Run(conn, cl, cache, "ERR_CIPHER", verifFlag("timeout"), l1+l2)
	verifReach("C06.random.short", l1+l2 < 50)
	verifReach("C06.random.long", l1+l2 > 50)
}

// a valid handshake with one byte modified in the authenticated first block
func VH_C06_bitflip() {
	cl, specs, _ := verifMakeList(1, 2, false)
	key := verifKey(specs[0].cipher, verifSecrets[specs[0].secret])
	stream := verifClientStream(key, []byte{1, 93, 184, 216, 34, 0, 80, 'x', 'y'})
	k := verifChoice("pos", key.SaltSize()+2+16)
	d := verifU8("delta")
	verifAssume(d != 0)
	stream[k] ^= d
	conn := &verifStreamConn{name: "client", remote: &net.TCPAddr{IP: net.IPv4(203, 0, 113, 5), Port: 50000}}
	conn.reads = []verifSRead{{data: stream}}
	verifC06Run(conn, cl, nil, "ERR_CIPHER", verifFlag("timeout"), len(stream))
	verifReach("C06.bitflip.done", true)
}

// client replay: the same handshake presented twice with history enabled
func VH_C06_replay() {
	cl, specs, entries := verifMakeList(1+verifChoice("nkeys", 2), 2, false)
	key := verifKey(specs[0].cipher, verifSecrets[specs[0].secret])
	stream := verifClientStream(key, []byte{1, 93, 184, 216, 34, 0, 80, 'x', 'y'})
	// a genuine client salt carries the server's 32-bit mark only with probability 2^-32 (C08 note)
	verifAssume(!entries[0].SaltGenerator.IsServerSalt(stream[:key.SaltSize()]))
	c := NewReplayCache(1 + verifChoice("cap", 2))
	// first presentation is served
	conn1 := &verifStreamConn{name: "client1", remote: &net.TCPAddr{IP: net.IPv4(203, 0, 113, 5), Port: 50000}}
	conn1.reads = []verifSRead{{data: stream}}
	dialer := &verifDialer{conn: &verifStreamConn{name: "target", remote: &net.TCPAddr{IP: net.IPv4(93, 184, 216, 34), Port: 80}}}
	h := NewStreamHandler(NewShadowsocksStreamAuthenticator(cl, &c, nil, nil), tcpReadTimeout)
	h.SetTargetDialer(dialer)
	m1 := &verifTCPMetrics{}
	h.Handle(context.Background(), conn1, m1)
	verifAssert("C07.first-served.dial", len(dialer.dials) == 1)
	verifAssert("C07.first-served.auth", len(m1.authenticated) == 1)
	verifAssert("C07.first-served.ok", len(m1.closed) == 1 && m1.closed[0] == "OK")
	// second presentation (another client address, same bytes) is a probe
	conn2 := &verifStreamConn{name: "client2", remote: &net.TCPAddr{IP: net.IPv4(198, 51, 100, 99), Port: 40000}}
	replayed := append([]byte{}, stream...)
	if verifFlag("replayer-alters-what-follows-the-first-block") {
		// the handshake is the access key plus the salt: whatever follows the salt and the sealed
		// length is the replayer's to choose
		first := key.SaltSize() + 2 + 16
		copy(replayed[first:], verifBytes("altered-tail", len(replayed)-first))
	}
	conn2.reads = []verifSRead{{data: replayed}}
	extra := verifChoice("extra", 2) * 11
	if extra > 0 {
		conn2.reads = append(conn2.reads, verifSRead{data: verifBytes("more", extra)})
	}
	verifC06Debug = verifFlag("debug-logging")
	defer func() { verifC06Debug = false }()
	m2, d2 := verifC06Run(conn2, cl, &c, "ERR_REPLAY_CLIENT", verifFlag("timeout"), len(stream)+extra)
	verifAssert("C07.replay.refused", len(m2.closed) == 1 && m2.closed[0] == "ERR_REPLAY_CLIENT" && len(m2.authenticated) == 0)
	verifAssert("C07.replay.handled-like-a-probe", len(d2.dials) == 0 && conn2.writeCalls == 0 && len(m2.probes) == 1 && verifOneHandshakeDeadline(conn2))
	verifReach("C06.replay.done", true)
}

// like verifC06Run but an access key id is known for the metrics (AddClosed carries no key here)
func verifC06ReplayRun(conn *verifStreamConn, cl CipherList, cache *ReplayCache, wantStatus string, timeout bool, total int, id string) {
	verifC06Run(conn, cl, cache, wantStatus, timeout, total)
}

// C08: a handshake whose salt carries the server's own mark for the matched key is refused
// whether or not the replay history is enabled
func VH_C08_reflected() {
	verifEmptyIDs = verifFlag("empty-key-ids")
	defer func() { verifEmptyIDs = false }()
	cl, specs, entries := verifMakeList(1+verifChoice("nkeys", 2), 2, false)
	// any entry of the list, in particular one that follows an entry with the same secret
	which := verifChoice("which", len(specs))
	for i := 0; i < which; i++ {
		verifAssume(specs[i] != specs[which]) // the first entry of a class is the one that matches
	}
	key := verifKey(specs[which].cipher, verifSecrets[specs[which].secret])
	// the client builds its stream with the server's own mark for that key (cipher and secret)
	buf := &verifBuf{}
	w := verifNewWriterWithSalt(buf, key, NewServerSaltGenerator(verifSecrets[specs[which].secret]))
	w.Write([]byte{1, 93, 184, 216, 34, 0, 80, 'x', 'y'})
	marked := key.SaltSize() >= 20
	_ = entries
	var cache *ReplayCache
	switch verifChoice("cache", 3) {
	case 1:
		c := NewReplayCache(0)
		cache = &c
	case 2:
		c := NewReplayCache(5)
		cache = &c
	}
	conn := &verifStreamConn{name: "client", remote: &net.TCPAddr{IP: net.IPv4(203, 0, 113, 5), Port: 50000}}
	conn.reads = []verifSRead{{data: buf.b}}
	if marked {
		verifC06Debug = verifFlag("debug-logging")
		defer func() { verifC06Debug = false }()
		m, d := verifC06Run(conn, cl, cache, "ERR_REPLAY_SERVER", verifFlag("timeout"), len(buf.b))
		verifAssert("C08.reflected.refused-as-server-replay", len(m.closed) == 1 && m.closed[0] == "ERR_REPLAY_SERVER" && len(m.authenticated) == 0)
		verifAssert("C08.reflected.handled-like-a-probe", len(d.dials) == 0 && conn.writeCalls == 0 && len(m.probes) == 1 && verifOneHandshakeDeadline(conn))
		if cache != nil {
			verifAssert("C08.cache-untouched", len(cache.active) == 0)
		}
		verifReach("C08.reflected.refused", true)
	} else {
		verifReach("C08.reflected.short-salt-unmarked", true)
	}
}

func verifIndexStr(evs []string, name string) int {
	for i, e := range evs {
		if e == name {
			return i
		}
	}
	return -1
}

// after authentication: an unparseable address header is drained (raw connection read to EOF,
// deadline cleared, nothing written, no dial)
func VH_C06_badaddr() {
	cl, specs, entries := verifMakeList(1, 2, false)
	key := verifKey(specs[0].cipher, verifSecrets[specs[0].secret])
	atyp := verifU8("atyp")
	verifAssume(atyp != 1 && atyp != 3 && atyp != 4)
	stream := verifClientStream(key, []byte{atyp, 1, 2, 3, 4, 5, 6, 7})
	verifAssume(!entries[0].SaltGenerator.IsServerSalt(stream[:key.SaltSize()]))
	conn := &verifStreamConn{name: "client", remote: &net.TCPAddr{IP: net.IPv4(203, 0, 113, 5), Port: 50000}}
	more := verifBytes("later", 20)
	conn.reads = []verifSRead{{data: stream}, {data: more}}
	dialer := &verifDialer{conn: &verifStreamConn{name: "target", remote: &net.TCPAddr{IP: net.IPv4(93, 184, 216, 34), Port: 80}}}
	h := NewStreamHandler(NewShadowsocksStreamAuthenticator(cl, nil, nil, nil), tcpReadTimeout)
	h.SetTargetDialer(dialer)
	m := &verifTCPMetrics{}
	h.Handle(context.Background(), conn, m)
	verifAssert("C06.badaddr.status", len(m.closed) == 1 && m.closed[0] == "ERR_READ_ADDRESS")
	verifAssert("C06.badaddr.no-dial", len(dialer.dials) == 0)
	verifAssert("C06.badaddr.no-write", conn.writeCalls == 0 && conn.closedWrite == 0)
	verifAssert("C06.badaddr.drained", conn.readPos == len(conn.reads) && conn.bytesRead == len(stream)+len(more) && conn.readsAfterEnd >= 1)
	verifAssert("C06.badaddr.deadline-cleared", verifHandshakeDeadlineCleared(conn))
	verifAssert("C06.badaddr.closed-last", conn.closed == 1 && conn.events[len(conn.events)-1] == "Close")
	verifAssert("C15.badaddr.auth-then-closed", len(m.order) == 2 && m.order[0] == "auth" && m.order[1] == "closed" && len(m.probes) == 0)
	verifReach("C06.badaddr.done", true)
}

// after authentication: a later chunk that fails authentication must not cut the client off:
// the remaining raw bytes are read until the client closes, before the target gets a FIN
func VH_C06_badchunk() {
	cl, specs, entries := verifMakeList(1, 2, false)
	key := verifKey(specs[0].cipher, verifSecrets[specs[0].secret])
	stream := verifClientStream(key, []byte{1, 93, 184, 216, 34, 0, 80, 'x', 'y'}, []byte("second chunk"))
	verifAssume(!entries[0].SaltGenerator.IsServerSalt(stream[:key.SaltSize()]))
	first := key.SaltSize() + 2 + 16 + 9 + 16
	k := first + verifChoice("pos", len(stream)-first)
	d := verifU8("delta")
	verifAssume(d != 0)
	stream[k] ^= d
	var glog []string
	conn := &verifStreamConn{name: "client", glog: &glog, remote: &net.TCPAddr{IP: net.IPv4(203, 0, 113, 5), Port: 50000}}
	more := verifBytes("later", 40)
	conn.reads = []verifSRead{{data: stream}, {data: more}}
	target := &verifStreamConn{name: "target", glog: &glog, remote: &net.TCPAddr{IP: net.IPv4(93, 184, 216, 34), Port: 80}}
	// the target may still have something to say after the client's stream went bad: the other
	// direction keeps flowing (C02)
	late := verifFlag("target-answers-afterwards")
	answer := verifBytes("answer", 3)
	if late {
		target.reads = []verifSRead{{data: answer}}
		target.onRead = func(call int) {
			if call == 1 {
				verifQuiesce() // the client-to-target side runs into the bad chunk and finishes first
			}
		}
	}
	dialer := &verifDialer{conn: target}
	h := NewStreamHandler(NewShadowsocksStreamAuthenticator(cl, nil, nil, nil), tcpReadTimeout)
	h.SetTargetDialer(dialer)
	m := &verifTCPMetrics{}
	h.Handle(context.Background(), conn, m)
	if late {
		r := shadowsocks.NewReader(bytes.NewReader(conn.written), key)
		got, err := io.ReadAll(r)
		verifAssert("C02.badchunk.target-to-client-keeps-flowing", err == nil && len(got) == 3 && verifBytesEq(got, answer))
	}
	verifAssert("C06.badchunk.status", len(m.closed) == 1 && m.closed[0] == "ERR_RELAY_CLIENT")
	verifAssert("C06.badchunk.first-chunk-forwarded", string(target.written) == "xy")
	fin := verifIndexStr(glog, "target:CloseWrite")
	end := verifIndexStr(glog, "client:ReadEnd")
	verifAssert("C06.badchunk.target-fin-sent", fin >= 0)
	verifAssert("C06.badchunk.drained-before-fin", end >= 0 && end < fin && conn.bytesRead == len(stream)+len(more))
	verifAssert("C06.badchunk.read-side-open-while-draining", conn.readsAfterCloseRead == 0 && verifIndexEv(conn.events, "CloseRead") > verifLastIndexEv(conn.events, "Read"))
	verifReach("C06.badchunk.done", true)
}

// the listener that accepted a probe goes away (its context is cancelled, as StreamServe does on
// shutdown or reload) while the probe is being absorbed: the probe is still read to its end and
// closed at its own deadline, not earlier
func VH_C06_cancel_during_absorb() {
	cl, _, _ := verifMakeList(1, 2, false)
	ctx, cancel := contextWithCancel()
	conn := &verifStreamConn{name: "client", remote: &net.TCPAddr{IP: net.IPv4(203, 0, 113, 5), Port: 50000}}
	conn.reads = []verifSRead{{data: verifBytes("p1", 60)}, {data: verifBytes("p2", 20)}, {data: verifBytes("p3", 5)}}
	at := 2 + verifChoice("cancel-at-read", 3)
	conn.onRead = func(call int) {
		if call == at {
			cancel()
			verifQuiesce() // whatever the cancellation triggers runs now
		}
	}
	verifC06Ctx = ctx
	verifC06Run(conn, cl, nil, "ERR_CIPHER", verifFlag("timeout"), 85)
	verifC06Ctx = nil
	verifQuiesce()
	verifAssert("C06.cancel.no-extra-deadline", verifOneHandshakeDeadline(conn))
	verifReach("C06.cancel.done", true)
}

// a probe far longer than any internal buffer is read to the end
func VH_C06_long_probe() {
	cl, _, _ := verifMakeList(1, 2, false)
	conn := &verifStreamConn{name: "client", remote: &net.TCPAddr{IP: net.IPv4(203, 0, 113, 5), Port: 50000}}
	conn.reads = []verifSRead{{data: verifBytes("p1", 60)}}
	bulk := (3 << 19) + verifChoice("odd", 2) // 1.5 MiB (+1)
	if verifTier() > 0 {
		bulk = 5 << 20
	}
	conn.bulk = bulk
	verifC06Run(conn, cl, nil, "ERR_CIPHER", verifFlag("timeout"), 60+bulk)
	verifReach("C06.long.done", true)
}

// the same after authentication: bad address header followed by a long tail
func VH_C06_long_tail_after_badaddr() {
	cl, specs, entries := verifMakeList(1, 1, false)
	key := verifKey(specs[0].cipher, verifSecrets[specs[0].secret])
	stream := verifClientStream(key, []byte{9, 1, 2, 3, 4, 5, 6, 7})
	verifAssume(!entries[0].SaltGenerator.IsServerSalt(stream[:key.SaltSize()]))
	conn := &verifStreamConn{name: "client", remote: &net.TCPAddr{IP: net.IPv4(203, 0, 113, 5), Port: 50000}}
	conn.reads = []verifSRead{{data: stream}}
	conn.bulk = 3 << 19
	dialer := &verifDialer{conn: &verifStreamConn{name: "target", remote: &net.TCPAddr{IP: net.IPv4(93, 184, 216, 34), Port: 80}}}
	h := NewStreamHandler(NewShadowsocksStreamAuthenticator(cl, nil, nil, nil), tcpReadTimeout)
	h.SetTargetDialer(dialer)
	m := &verifTCPMetrics{}
	h.Handle(contextBackground(), conn, m)
	verifAssert("C06.long-tail.status", len(m.closed) == 1 && m.closed[0] == "ERR_READ_ADDRESS")
	verifAssert("C06.long-tail.drained", conn.bulk == 0 && conn.bytesRead == len(stream)+(3<<19) && conn.readsAfterEnd >= 1)
	verifAssert("C06.long-tail.no-write", conn.writeCalls == 0 && conn.closedWrite == 0)
	verifReach("C06.long-tail.done", true)
}

type verifFixedSaltGen struct{ n int }

func (f verifFixedSaltGen) GetSalt(salt []byte) error {
	for i := range salt {
		salt[i] = byte(5*i + 11 + 37*f.n)
	}
	return nil
}

// C08: response salts stay fresh for every connection, also after a failure of the random source
func VH_C08_fresh_after_rand_fault() {
	cl, specs, entries := verifMakeList(1, 1, false)
	key := verifKey(specs[0].cipher, verifSecrets[specs[0].secret])
	ss := key.SaltSize()
	n := 45
	if verifTier() > 0 {
		n = 90
	}
	verifRandFaultAt(verifChoice("fault-at", 3)) // one of the first three draws of the server fails
	var salts [][]byte
	failed := 0
	for i := 0; i < n; i++ {
		buf := &verifBuf{}
		w := verifNewWriterWithSalt(buf, key, verifFixedSaltGen{i}) // client salts do not use the random source
		w.Write([]byte{1, 93, 184, 216, 34, 0, 80, 'x'})
		if entries[0].SaltGenerator.IsServerSalt(buf.b[:ss]) {
			continue
		}
		conn := &verifStreamConn{name: "client", remote: &net.TCPAddr{IP: net.IPv4(203, 0, 113, 5), Port: 50000}}
		conn.reads = []verifSRead{{data: buf.b}}
		target := &verifStreamConn{name: "target", remote: &net.TCPAddr{IP: net.IPv4(93, 184, 216, 34), Port: 80}}
		target.reads = []verifSRead{{data: []byte{'r'}}}
		h := NewStreamHandler(NewShadowsocksStreamAuthenticator(cl, nil, nil, nil), tcpReadTimeout)
		h.SetTargetDialer(&verifDialer{conn: target})
		h.Handle(contextBackground(), conn, &verifTCPMetrics{})
		if len(conn.written) >= ss {
			salts = append(salts, conn.written[:ss])
		} else {
			failed++
		}
	}
	verifRandFaultAt(-1)
	verifAssert("C08.fresh.at-most-one-connection-lost", failed <= 1)
	random := ss
	if ss >= 20 {
		random = ss - 4
	}
	for i := range salts {
		if ss >= 20 {
			// every response that went out, also one written while the random source was failing,
			// starts with a salt the server recognises as its own
			verifAssert("C08.fresh.every-response-salt-recognised", entries[0].SaltGenerator.IsServerSalt(salts[i]))
		}
		for j := 0; j < i; j++ {
			verifAssert("C08.fresh.salt-new-for-each-connection", verifFreshBytes(salts[i][:random], salts[j][:random]))
		}
	}
	verifReach("C08.fresh.done", len(salts) >= n-2)
}

// C08: another connection is authenticated while this one is between its key search and its
// replay checks (the search-time metric is reported there): a reflected server salt is still refused
type verifSearchMetrics struct{ hook func() }

func (m *verifSearchMetrics) AddCipherSearch(accessKeyFound bool, timeToCipher time.Duration) {
	if m.hook != nil {
		h := m.hook
		m.hook = nil
		h()
	}
}

func VH_C08_reflected_with_connection_in_between() {
	cl, specs, _ := verifMakeList(1, 1, false)
	key := verifKey(specs[0].cipher, verifSecrets[specs[0].secret])
	if key.SaltSize() < 20 {
		return // no mark in short salts
	}
	buf := &verifBuf{}
	w := verifNewWriterWithSalt(buf, key, NewServerSaltGenerator(verifSecrets[specs[0].secret]))
	w.Write([]byte{1, 93, 184, 216, 34, 0, 80, 'x', 'y'})
	other := &verifBuf{}
	w2 := verifNewWriterWithSalt(other, key, verifFixedSaltGen{4})
	w2.Write([]byte{1, 93, 184, 216, 35, 0, 80, 'z'})
	sm := &verifSearchMetrics{}
	var cache *ReplayCache
	if verifFlag("history-on") {
		c := NewReplayCache(5)
		cache = &c
	}
	h := NewStreamHandler(NewShadowsocksStreamAuthenticator(cl, cache, sm, nil), tcpReadTimeout)
	h.SetTargetDialer(&verifDialer{conn: &verifStreamConn{name: "target", remote: &net.TCPAddr{IP: net.IPv4(93, 184, 216, 34), Port: 80}}})
	conn := &verifStreamConn{name: "reflecting", remote: &net.TCPAddr{IP: net.IPv4(203, 0, 113, 5), Port: 50000}}
	conn.reads = []verifSRead{{data: buf.b}}
	m := &verifTCPMetrics{}
	sm.hook = func() {
		c2 := &verifStreamConn{name: "ordinary", remote: &net.TCPAddr{IP: net.IPv4(203, 0, 113, 6), Port: 50001}}
		c2.reads = []verifSRead{{data: other.b}}
		h.Handle(context.Background(), c2, &verifTCPMetrics{})
	}
	h.Handle(context.Background(), conn, m)
	verifAssert("C08.in-between.refused-as-server-replay", len(m.closed) == 1 && m.closed[0] == "ERR_REPLAY_SERVER" && len(m.authenticated) == 0)
	verifAssert("C08.in-between.handled-like-a-probe", conn.writeCalls == 0 && len(m.probes) == 1)
	verifReach("C08.in-between.done", true)
}

// C08: reflected handshakes keep arriving on one listener (the same key again, another key):
// each one is refused and absorbed like an invalid probe, however many came before
func VH_C08_reflected_again_and_again() {
	cl, specs, _ := verifMakeList(2, 2, false)
	verifAssume(specs[0] != specs[1])
	verifAssume(verifKey(specs[0].cipher, "s1").SaltSize() >= 20 && verifKey(specs[1].cipher, "s1").SaltSize() >= 20)
	h := NewStreamHandler(NewShadowsocksStreamAuthenticator(cl, nil, nil, nil), tcpReadTimeout)
	dialer := &verifDialer{conn: &verifStreamConn{name: "target", remote: &net.TCPAddr{IP: net.IPv4(93, 184, 216, 34), Port: 80}}}
	h.SetTargetDialer(dialer)
	done := make(chan int, 8)
	const rounds = 4
	go func() {
		for r := 0; r < rounds; r++ {
			which := 0
			if r > 0 {
				which = verifChoice("which", 2)
			}
			key := verifKey(specs[which].cipher, verifSecrets[specs[which].secret])
			buf := &verifBuf{}
			w := verifNewWriterWithSalt(buf, key, NewServerSaltGenerator(verifSecrets[specs[which].secret]))
			w.Write([]byte{1, 93, 184, 216, 34, 0, 80, 'x', 'y'})
			conn := &verifStreamConn{name: "client", remote: &net.TCPAddr{IP: net.IPv4(203, 0, 113, 5), Port: 50000 + r}}
			conn.reads = []verifSRead{{data: buf.b}}
			m := &verifTCPMetrics{}
			h.Handle(context.Background(), conn, m)
			verifAssert("C08.again.refused-as-server-replay", len(m.closed) == 1 && m.closed[0] == "ERR_REPLAY_SERVER" && len(m.authenticated) == 0)
			verifAssert("C08.again.handled-like-a-probe", len(dialer.dials) == 0 && conn.writeCalls == 0 && len(m.probes) == 1 && conn.closed == 1 && conn.bytesRead == len(buf.b))
			done <- r
		}
	}()
	verifSettle(func() bool { return len(done) == rounds })
	verifAssert("C08.again.every-one-is-handled-to-its-end", len(done) == rounds)
	verifReach("C08.again.done", true)
}

// a valid stream cut short before its 50th byte (the client went silent or closed half-way
// through its first segment), for every cipher mix of the key list, in particular lists whose
// ciphers all need fewer than 50 bytes to check a key: it is not served and is absorbed like any
// other probe, up to the same deadline
func VH_C06_truncated_valid_stream() {
	n := 1 + verifChoice("nkeys", 2)
	cl, specs, entries := verifMakeList(n, 2, false)
	which := verifChoice("which", n)
	key := verifKey(specs[which].cipher, verifSecrets[specs[which].secret])
	stream := verifClientStream(key, []byte{1, 93, 184, 216, 34, 0, 80, 'x', 'y'})
	verifAssume(!entries[which].SaltGenerator.IsServerSalt(stream[:key.SaltSize()]))
	l := []int{1, 33, 34, 35, 41, 42, 43, 49}[verifChoice("cut", 8)]
	cut := stream[:l]
	conn := &verifStreamConn{name: "client", remote: &net.TCPAddr{IP: net.IPv4(203, 0, 113, 5), Port: 50000}}
	// in one segment or two
	if at := verifChoice("split", 3); at > 0 && l > 20 {
		conn.reads = []verifSRead{{data: cut[:10*at]}, {data: cut[10*at:]}}
	} else {
		conn.reads = []verifSRead{{data: cut}}
	}
	verifC06Run(conn, cl, nil, "ERR_CIPHER", verifFlag("timeout"), l)
	verifReach("C06.truncated.enough-for-the-shortest-cipher", l >= 34)
}

// a probe from an address from which keys of the list were used before (the search order then
// depends on that history): absorbed like any other
func VH_C06_probe_from_a_known_address() {
	cl, _, _ := verifMakeList(2, 1, false)
	conn := &verifStreamConn{name: "client", remote: &net.TCPAddr{IP: net.IPv4(203, 0, 113, 5), Port: 50000}}
	probeFrom := remoteIP(conn) // (in the form the server records addresses in)
	snap := cl.SnapshotForClientIP(netip.Addr{})
	// some of the keys were last used from the prober's address, others from elsewhere or never
	for i, e := range snap {
		switch verifChoice("last-used-from", 3) {
		case 1:
			cl.MarkUsedByClientIP(e, probeFrom)
		case 2:
			cl.MarkUsedByClientIP(e, netip.AddrFrom4([4]byte{198, 51, 100, byte(i + 1)}))
		}
	}
	l := []int{50, 73}[verifChoice("len", 2)]
	conn.reads = []verifSRead{{data: verifBytes("p", l)}}
	verifC06Run(conn, cl, nil, "ERR_CIPHER", verifFlag("timeout"), l)
	verifReach("C06.known-address.done", true)
}

// C08: the key list is replaced (a reload that makes every entry anew, same ids and secrets)
// while a connection is between its authentication and its first response byte: the response
// salt it then issues is still one the server recognises as its own for that key
func VH_C08_response_salt_across_key_list_update() {
	cl, specs, entries := verifMakeList(1, 1, false)
	key := verifKey(specs[0].cipher, verifSecrets[specs[0].secret])
	verifAssume(key.SaltSize() >= 20)
	stream := verifClientStream(key, []byte{1, 93, 184, 216, 34, 0, 80, 'x'})
	verifAssume(!entries[0].SaltGenerator.IsServerSalt(stream[:key.SaltSize()]))
	conn := &verifStreamConn{name: "client", remote: &net.TCPAddr{IP: net.IPv4(203, 0, 113, 5), Port: 50000}}
	conn.reads = []verifSRead{{data: stream}}
	target := &verifStreamConn{name: "target", remote: &net.TCPAddr{IP: net.IPv4(93, 184, 216, 34), Port: 80}}
	target.reads = []verifSRead{{data: []byte{'r'}}}
	h := NewStreamHandler(NewShadowsocksStreamAuthenticator(cl, nil, nil, nil), tcpReadTimeout)
	h.SetTargetDialer(&verifDialer{conn: target})
	// the list as a reload builds it: fresh entries for the same key
	fresh := MakeCipherEntry("id-0", verifKey(specs[0].cipher, verifSecrets[specs[0].secret]), verifSecrets[specs[0].secret])
	m := &verifTCPMetrics{}
	m.onAuth = func() {
		l := list.New()
		l.PushBack(&fresh)
		cl.Update(l)
	}
	h.Handle(context.Background(), conn, m)
	ss := key.SaltSize()
	verifAssert("C08.across-update.response-has-salt", len(conn.written) >= ss)
	if len(conn.written) >= ss {
		verifAssert("C08.across-update.response-salt-recognised-for-the-key", fresh.SaltGenerator.IsServerSalt(conn.written[:ss]))
	}
	verifReach("C08.across-update.done", true)
}

package service

// C05 (TCP clause): every address the dialer is about to connect to passes through the Control
// hook, whose verdict is RequirePublicIP of *that* address; the service is wired to that dialer.

import (
	"net"

	"github.com/Jigsaw-Code/outline-sdk/transport"
)

func VH_C05_tcpdial() {
	svc, err := NewShadowsocksService(WithCiphers(NewCipherList()))
	verifAssert("C05.tcp.service-built", err == nil)
	sh, ok := svc.(*ssService).sh.(*streamHandler)
	verifAssert("C05.tcp.handler-type", ok)
	d, isTCP := sh.dialer.(*transport.TCPDialer)
	verifAssert("C05.tcp.validating-dialer-installed", isTCP && d.Dialer.Control != nil)
	if !isTCP || d.Dialer.Control == nil {
		return
	}
	// the address handed to Control by net.Dialer is the text of the resolved IP and port
	var ip net.IP
	var v4 []byte
	switch verifChoice("form", 2) {
	case 0:
		v4 = verifBytes("ip4", 4)
		ip = net.IP(v4)
	case 1:
		v4 = verifBytes("ip4", 4)
		ip = net.IP{0, 0, 0, 0, 0, 0, 0, 0, 0, 0, 0xff, 0xff, v4[0], v4[1], v4[2], v4[3]}
	}
	addr := (&net.TCPAddr{IP: ip, Port: int(verifU16("port"))}).String()
	cerr := d.Dialer.Control("tcp4", addr, nil)
	verifAssert("C05.tcp.private-refused", verifImplies(verifMustRejectV4(v4), cerr != nil))
	verifReach("C05.tcp.public-allowed", cerr == nil)
	verifReach("C05.tcp.refused", cerr != nil)
}

func VH_C05_tcpdial6() {
	d := defaultDialer.(*transport.TCPDialer)
	low := verifBytes("low", 15)
	first := verifU8("first")
	ip := net.IP{first, low[0], low[1], low[2], low[3], low[4], low[5], low[6], low[7], low[8], low[9], low[10], low[11], low[12], low[13], low[14]}
	zone := ""
	if verifFlag("zoned") {
		zone = "eth0"
	}
	addr := (&net.TCPAddr{IP: ip, Port: 443, Zone: zone}).String()
	cerr := d.Dialer.Control("tcp6", addr, nil)
	var acc uint8
	for _, b := range low {
		acc |= b
	}
	reject := verifAny(verifAll(first == 0, acc == 0), first == 0xff, verifAll(first == 0xfe, low[0]&0xc0 == 0x80), first&0xfe == 0xfc)
	verifAssert("C05.tcp6.special-refused", verifImplies(reject, cerr != nil))
	verifAssert("C05.tcp6.zoned-refused", verifImplies(zone != "", cerr != nil))
	verifReach("C05.tcp6.allowed", cerr == nil)
}

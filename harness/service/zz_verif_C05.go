package service

// C05 (TCP clause): every address the dialer is about to connect to passes through the Control
// hook, whose verdict is RequirePublicIP of *that* address; the service is wired to that dialer.

import (
	"net"
	"time"

	"github.com/Jigsaw-Code/outline-sdk/transport"
)

func VH_C05_tcpdial() {
	svc, err := NewShadowsocksService(WithCiphers(NewCipherList()))
	verifAssert("C05.tcp.service-built", err == nil)
	// (if the service is built differently from what this harness knows how to open up, the
	// harness does not apply: the path ends here and the run reports it as inconclusive)
	ss, isSS := svc.(*ssService)
	verifAssume(isSS)
	sh, ok := ss.sh.(*streamHandler)
	verifAssume(ok)
	d, isTCP := sh.dialer.(*transport.TCPDialer)
	verifAssume(isTCP)
	// a TCPDialer without a Control hook connects to whatever it is given
	verifAssert("C05.tcp.validating-dialer-installed", d.Dialer.Control != nil)
	if d.Dialer.Control == nil {
		return
	}
	// the address handed to Control by net.Dialer is the text of the resolved IP and port
	var ip net.IP
	var v4 []byte
	switch verifChoice("form", 2) {
	case 0:
		v4 = verifBytes("ip4", 4)
		ip = net.IP(v4)
	case 1:
		v4 = verifBytes("ip4", 4)
		ip = net.IP{0, 0, 0, 0, 0, 0, 0, 0, 0, 0, 0xff, 0xff, v4[0], v4[1], v4[2], v4[3]}
	}
	addr := (&net.TCPAddr{IP: ip, Port: int(verifU16("port"))}).String()
	cerr := d.Dialer.Control("tcp4", addr, nil)
	verifAssert("C05.tcp.private-refused", verifImplies(verifMustRejectV4(v4), cerr != nil))
	verifReach("C05.tcp.public-allowed", cerr == nil)
	verifReach("C05.tcp.refused", cerr != nil)
}

func VH_C05_tcpdial6() {
	d, isTCP := defaultDialer.(*transport.TCPDialer)
	verifAssume(isTCP && d.Dialer.Control != nil) // otherwise this harness does not apply (see VH_C05_tcpdial)
	low := verifBytes("low", 15)
	first := verifU8("first")
	ip := net.IP{first, low[0], low[1], low[2], low[3], low[4], low[5], low[6], low[7], low[8], low[9], low[10], low[11], low[12], low[13], low[14]}
	zone := ""
	if verifFlag("zoned") {
		zone = "eth0"
	}
	addr := (&net.TCPAddr{IP: ip, Port: 443, Zone: zone}).String()
	cerr := d.Dialer.Control("tcp6", addr, nil)
	var acc uint8
	for _, b := range low {
		acc |= b
	}
	reject := verifAny(verifAll(first == 0, acc == 0), first == 0xff, verifAll(first == 0xfe, low[0]&0xc0 == 0x80), first&0xfe == 0xfc)
	verifAssert("C05.tcp6.special-refused", verifImplies(reject, cerr != nil))
	verifAssert("C05.tcp6.zoned-refused", verifImplies(zone != "", cerr != nil))
	verifReach("C05.tcp6.allowed", cerr == nil)
}

// every listed non-public class, on either representation of an address (branch-free)
func verifMustReject(ip net.IP) bool {
	if len(ip) == 4 {
		return verifMustRejectV4(ip)
	}
	if len(ip) != 16 {
		return true
	}
	var hi uint8
	for i := 0; i < 10; i++ {
		hi |= ip[i]
	}
	var mid uint8
	for i := 1; i < 15; i++ {
		mid |= ip[i]
	}
	mapped := verifAll(hi == 0, ip[10] == 0xff, ip[11] == 0xff)
	zero := verifAll(ip[0] == 0, mid == 0, ip[15] == 0)
	loop := verifAll(ip[0] == 0, mid == 0, ip[15] == 1)
	v6 := verifAny(zero, loop, verifAll(ip[0] == 0xfe, ip[1]&0xc0 == 0x80), ip[0] == 0xff, ip[0]&0xfe == 0xfc)
	return verifAny(verifAll(mapped, verifMustRejectV4(ip[12:16])), verifAll(!mapped, v6))
}

// C05 (hostnames over UDP): whatever the resolver answers for a name, on the first and on later
// datagrams of an association, nothing is sent to a non-public address
func VH_C05_udp_domain() {
	verifResetNet()
	cl, specs, _ := verifMakeList(1, 1, false)
	key := verifKey(specs[0].cipher, verifSecrets[specs[0].secret])
	h := NewPacketHandler(defaultNatTimeout, cl, &verifUDPMetrics{}, nil)
	client := &verifPacketConn{name: "client"}
	// "localhost" resolves (to loopback) without a network, so violations replay natively
	name := []byte{3, 9, 'l', 'o', 'c', 'a', 'l', 'h', 'o', 's', 't', 0, 53, 'q'}
	empty := []byte{3, 0, 0, 53, 'q'} // empty domain name
	first := name
	if verifFlag("first-empty") {
		first = empty
	}
	client.reads = []verifRead{{data: verifPack(key, first), addr: verifClientAddrs[0]}, {data: verifPack(key, name), addr: verifClientAddrs[0]}}
	h.Handle(client)
	verifQuiesce()
	for _, t := range verifTargets {
		for i, w := range t.writes {
			ua := w.addr.(*net.UDPAddr)
			if i == 0 {
				// the datagram that created the association went to an allowed destination
				verifAssert("C04.udp-domain.association-created-for-allowed-destination", !verifMustReject(ua.IP))
			}
			verifAssert("C05.udp-domain.destination-public", !verifMustReject(ua.IP))
			// the target receives exactly the payload after the (host name) address header
			verifAssert("C03.udp-domain.payload-intact", len(w.data) == 1 && w.data[0] == 'q' && ua.Port == 53)
			verifReach("C05.udp-domain.forwarded", true)
		}
	}
	verifReach("C05.udp-domain.second-on-association", len(verifTargets) == 1 && len(verifTargets[0].writes) == 2)
}

// the service object the server builds (NewShadowsocksService, no special options) applies the
// default policy to datagrams as well: every destination, both datagrams of an association
type verifFullMetrics struct{ verifUDPMetrics }

func (m *verifFullMetrics) AddOpenTCPConnection(conn net.Conn) TCPConnMetrics {
	return &verifTCPMetrics{}
}
func (m *verifFullMetrics) AddCipherSearch(proto string, accessKeyFound bool, timeToCipher time.Duration) {
}

func VH_C05_udp_through_service() {
	verifResetNet()
	cl, specs, _ := verifMakeList(1, 1, false)
	key := verifKey(specs[0].cipher, verifSecrets[specs[0].secret])
	svc, err := NewShadowsocksService(WithCiphers(cl), WithMetrics(&verifFullMetrics{}))
	verifAssert("C05.service-udp.built", err == nil)
	if err != nil {
		return
	}
	client := &verifPacketConn{name: "client"}
	d1, d2 := verifBytes("dst1", 4), verifBytes("dst2", 4)
	client.reads = []verifRead{
		{data: verifPack(key, verifSocksV4(d1, 443, []byte("a"))), addr: verifClientAddrs[0]},
		{data: verifPack(key, verifSocksV4(d2, 443, []byte("b"))), addr: verifClientAddrs[0]},
	}
	svc.HandlePacket(client)
	verifQuiesce()
	for _, t := range verifTargets {
		for _, w := range t.writes {
			ua := w.addr.(*net.UDPAddr)
			verifAssert("C05.service-udp.destination-allowed", !verifMustReject(ua.IP))
			verifReach("C05.service-udp.forwarded", true)
		}
	}
	verifReach("C05.service-udp.done", true)
}

// C03: a target given by host name receives exactly the payload after its address header (the
// destination policy is opened up here so that the name may resolve to anything, also natively)
func VH_C03_hostname_payload() {
	verifResetNet()
	cl, specs, _ := verifMakeList(1, 1, false)
	key := verifKey(specs[0].cipher, verifSecrets[specs[0].secret])
	h := NewPacketHandler(defaultNatTimeout, cl, &verifUDPMetrics{}, nil)
	h.SetTargetIPValidator(func(net.IP) error { return nil })
	client := &verifPacketConn{name: "client"}
	p1, p2 := verifBytes("p1", 3), verifBytes("p2", 1)
	mk := func(p []byte) []byte {
		return verifPack(key, append([]byte{3, 9, 'l', 'o', 'c', 'a', 'l', 'h', 'o', 's', 't', 0, 53}, p...))
	}
	client.reads = []verifRead{{data: mk(p1), addr: verifClientAddrs[0]}, {data: mk(p2), addr: verifClientAddrs[0]}}
	h.Handle(client)
	verifQuiesce()
	n := 0
	for _, t := range verifTargets {
		for _, w := range t.writes {
			// (the name may fail to resolve for either datagram: tell them apart by their length)
			ok := (len(w.data) == 3 && verifBytesEq(w.data, p1)) || (len(w.data) == 1 && verifBytesEq(w.data, p2))
			verifAssert("C03.hostname.payload-exactly-what-follows-the-header", ok)
			verifAssert("C03.hostname.port", w.addr.(*net.UDPAddr).Port == 53)
			n++
		}
	}
	verifReach("C03.hostname.both-forwarded", n == 2)
}

// UDP to an IPv6 literal, every 16-byte value: an association is created and the datagram sent
// exactly when the address is not in a refused class, and it is sent to that very address
func VH_C05_udp_v6() {
	verifResetNet()
	cl, specs, _ := verifMakeList(1, 1, false)
	key := verifKey(specs[0].cipher, verifSecrets[specs[0].secret])
	um := &verifUDPMetrics{}
	h := NewPacketHandler(defaultNatTimeout, cl, um, nil)
	client := &verifPacketConn{name: "client"}
	first := verifU8("first")
	low := verifBytes("low", 15)
	ip := append([]byte{first}, low...)
	pt := append(append([]byte{4}, ip...), 1, 187, 'q')
	client.reads = []verifRead{{data: verifPack(key, pt), addr: verifClientAddrs[0]}}
	h.Handle(client)
	verifQuiesce()
	refused := verifMustReject(net.IP(ip))
	sent := len(verifTargets) == 1 && len(verifTargets[0].writes) == 1
	verifAssert("C05.udp-v6.nothing-to-a-refused-address|C04.udp-v6.no-association-for-a-refused-address", verifImplies(refused, len(verifTargets) == 0 && len(um.entries) == 0))
	verifAssert("C05.udp-v6.other-addresses-are-served|C04.udp-v6.association-for-an-allowed-address", verifImplies(!refused, sent && len(um.entries) == 1))
	if sent {
		ua, isUDP := verifTargets[0].writes[0].addr.(*net.UDPAddr)
		verifAssert("C05.udp-v6.sent-to-the-checked-address|C03.udp-v6.destination", isUDP && ua.Port == 443 && verifBytesEq(ua.IP.To16(), ip))
		verifAssert("C03.udp-v6.payload-intact", string(verifTargets[0].writes[0].data) == "q")
		verifReach("C05.udp-v6.sent", true)
	}
	verifReach("C05.udp-v6.refused", refused)
}

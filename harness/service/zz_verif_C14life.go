package service

// C14, stated on what a client can observe: how long an association stays usable and when it is
// reclaimed, whatever the implementation does with its socket deadlines and timers.
//
// The outbound socket is a scripted one that honours read deadlines against a virtual "now": a
// read returns a timeout error exactly when a deadline is armed and has passed, waits otherwise,
// and is woken by data, by Close, by a new deadline and by time moving on. The harness moves time
// (under gosmt the clock the server reads moves with it).

import (
	"net"
	"sync"
	"time"
)

type verifDeadlinePC struct {
	mu       sync.Mutex
	deadline time.Time // armed read deadline (zero: none)
	clock    time.Time // virtual now
	in       chan verifRead
	wake     chan struct{}
	closedCh chan struct{}
	closed   int
	written  []verifWrite
	local    net.Addr
}

var (
	verifTargetDeadlines bool
	verifDeadlineTargets []*verifDeadlinePC
)

func newVerifDeadlinePC(local net.Addr) *verifDeadlinePC {
	return &verifDeadlinePC{in: make(chan verifRead), wake: make(chan struct{}, 1), closedCh: make(chan struct{}), local: local}
}

func (c *verifDeadlinePC) poke() {
	select {
	case c.wake <- struct{}{}:
	default:
	}
}

func (c *verifDeadlinePC) ReadFrom(p []byte) (int, net.Addr, error) {
	for {
		c.mu.Lock()
		closed := c.closed > 0
		due := !c.deadline.IsZero() && !c.deadline.After(c.clock)
		c.mu.Unlock()
		if closed {
			return 0, nil, net.ErrClosed
		}
		if due {
			return 0, nil, verifTimeoutErr{}
		}
		select {
		case r := <-c.in:
			return copy(p, r.data), r.addr, nil
		case <-c.wake:
		case <-c.closedCh:
			return 0, nil, net.ErrClosed
		}
	}
}

func (c *verifDeadlinePC) WriteTo(p []byte, addr net.Addr) (int, error) {
	c.mu.Lock()
	defer c.mu.Unlock()
	if c.closed > 0 {
		return 0, net.ErrClosed
	}
	c.written = append(c.written, verifWrite{append([]byte{}, p...), addr})
	return len(p), nil
}

func (c *verifDeadlinePC) Close() error {
	c.mu.Lock()
	c.closed++
	first := c.closed == 1
	c.mu.Unlock()
	if first {
		close(c.closedCh)
	}
	return nil
}

func (c *verifDeadlinePC) Closed() int {
	c.mu.Lock()
	defer c.mu.Unlock()
	return c.closed
}

func (c *verifDeadlinePC) Written() int {
	c.mu.Lock()
	defer c.mu.Unlock()
	return len(c.written)
}

func (c *verifDeadlinePC) LocalAddr() net.Addr { return c.local }

func (c *verifDeadlinePC) SetDeadline(t time.Time) error { return c.SetReadDeadline(t) }

func (c *verifDeadlinePC) SetReadDeadline(t time.Time) error {
	c.mu.Lock()
	if c.closed > 0 {
		c.mu.Unlock()
		return net.ErrClosed
	}
	c.deadline = t
	c.mu.Unlock()
	c.poke()
	return nil
}

func (c *verifDeadlinePC) SetWriteDeadline(t time.Time) error { return nil }

// time has moved on to t
func (c *verifDeadlinePC) setClock(t time.Time) {
	c.mu.Lock()
	c.clock = t // (the harness only ever moves time forward)
	c.mu.Unlock()
	c.poke()
}

func verifC14Life(k int) {
	verifResetNet()
	verifTargetDeadlines = true
	verifDeadlineTargets = nil
	defer func() { verifTargetDeadlines = false }()
	// (the configured timeout below, at and above the 17 s promised to DNS; the arithmetic on
	// symbolic timeouts is covered by VH_C14_ops)
	tmo := []time.Duration{time.Second, 30 * time.Second, 17 * time.Second, 5 * time.Minute}[verifChoice("timeout", 2+2*verifTier())]
	if verifC14SymTimeout {
		tmo = time.Duration(verifI64("timeout-ns"))
		verifAssume(tmo >= time.Second && tmo <= 24*time.Hour)
	}
	longest := verifMaxDur(tmo, 17*time.Second)
	cl, specs, _ := verifMakeList(1, 1, false)
	key := verifKey(specs[0].cipher, verifSecrets[specs[0].secret])
	um := &verifUDPMetrics{}
	h := NewPacketHandler(tmo, cl, um, nil)
	client := &verifChanPC{in: make(chan verifRead), closedCh: make(chan struct{}), local: &net.UDPAddr{IP: net.IPv4(192, 0, 2, 1), Port: 9}}
	done := make(chan struct{})
	go func() { h.Handle(client); close(done) }()

	var promisedUntil, deadBy int // instants in ns (kept branch-free)
	writes, replies := 0, 0
	firstDNS, fastCloseDue, over := false, false, false
	alive := func() bool {
		return len(um.entries) == 1 && um.entries[0].removed == 0 && len(verifDeadlineTargets) == 1 && verifDeadlineTargets[0].Closed() == 0
	}
	for i := 0; i < k && !over; i++ {
		op := 0
		if i > 0 {
			op = verifChoice("op", 4)
		}
		switch op {
		case 0: // a datagram from the client, to a DNS port or not
			// any destination port: only 53 is DNS
			port := int(verifU16("dport"))
			dns := port == 53
			tBefore := time.Now()
			if len(verifDeadlineTargets) == 1 {
				verifDeadlineTargets[0].setClock(tBefore)
			}
			verifInject(client, verifPack(key, verifSocksV4([]byte{93, 184, 216, 34}, port, []byte{'q'})), verifClientAddrs[0])
			verifQuiesce()
			tAfter := time.Now()
			writes++
			if writes == 1 {
				firstDNS = dns
				verifAssert("C14.life.association-opened", alive())
			}
			want := tmo
			if dns {
				want = 17 * time.Second
			}
			p := int(tBefore.UnixNano()) + int(want)
			promisedUntil = verifIteInt(p > promisedUntil, p, promisedUntil)
			d := int(tAfter.UnixNano()) + int(2*longest)
			deadBy = verifIteInt(d > deadBy, d, deadBy)
			fastCloseDue = false
		case 1: // a reply from the target, from a DNS server or not
			if len(verifDeadlineTargets) != 1 {
				over = true
				break
			}
			sport := int(verifU16("sport"))
			fromDNS := sport == 53
			verifDeadlineTargets[0].setClock(time.Now())
			select {
			case verifDeadlineTargets[0].in <- verifRead{data: []byte{'a'}, addr: &net.UDPAddr{IP: net.IPv4(93, 184, 216, 34), Port: sport}}:
			case <-verifDeadlineTargets[0].closedCh:
			}
			verifQuiesce()
			replies++
			if verifAll(replies == 1, writes == 1, firstDNS, fromDNS) {
				// one DNS query, first answer from a DNS server: the association closes right away
				fastCloseDue = true
				verifDeadlineTargets[0].setClock(time.Now())
				verifQuiesce()
				verifAssert("C14.life.closes-right-after-the-answer-to-a-single-dns-query", !alive())
				over = true
			} else {
				// any other reply leaves the association as it is: still there while its promised
				// life lasts, for the next datagram of the client and the other targets' replies
				// (a moment later, so that a deadline armed "now" by the reply has passed)
				verifDeadlineTargets[0].setClock(time.Now())
				verifQuiesce()
				stillPromised := int(time.Now().UnixNano()) < promisedUntil
				verifAssert("C14.life.other-replies-do-not-end-the-association|C04.life.other-replies-do-not-end-the-association", verifImplies(stillPromised, alive()))
				verifReach("C14.life.reply-within-promised-life", stillPromised)
			}
		case 2: // time passes; what is left of the association?
			if len(verifDeadlineTargets) != 1 {
				over = true
				break
			}
			// Look at the two moments that decide the promise (an association that is there at the
			// last promised instant was there before; one that is gone at the bound stays gone):
			// the last instant of the promised life, and the bound for reclaiming it.
			now := time.Now()
			if verifFlag("look-at-the-reclaim-bound") {
				p := verifTime(int64(deadBy))
				verifAssume(!p.Before(now))
				verifClockAtLeast(p)
				verifDeadlineTargets[0].setClock(p)
				verifPause()
				verifQuiesce()
				verifAssert("C14.life.reclaimed-within-bounded-time", !alive())
			} else {
				p := verifTime(int64(promisedUntil) - 1)
				verifAssume(!p.Before(now))
				verifClockAtLeast(p)
				verifDeadlineTargets[0].setClock(p)
				verifPause()
				verifQuiesce()
				if !fastCloseDue {
					verifAssert("C14.life.usable-for-as-long-as-promised", alive())
				}
			}
			if !alive() {
				verifAssert("C14.life.reclaimed-completely", len(um.entries) == 1 && um.entries[0].removed == 1 && verifDeadlineTargets[0].Closed() == 1)
				verifReach("C14.life.expired", true)
				over = true
			} else {
				verifReach("C14.life.still-alive-at-a-probe", true)
			}
		case 3: // bytes that no key opens, from the address of the live association
			verifInject(client, []byte("junk from the same address, no key fits this at all........."), verifClientAddrs[0])
			verifQuiesce()
		}
	}
	client.Close()
	verifQuiesce()
	// (the shutdown expires what is left "now": let that moment pass)
	for _, t := range verifDeadlineTargets {
		t.setClock(time.Now())
	}
	verifQuiesce()
	<-done
	verifAssert("C14.life.nothing-left-after-shutdown", verifBlockedIn("timedCopy") == 0 && (len(um.entries) == 0 || um.entries[0].removed == 1))
	verifReach("C14.life.done", true)
}

var verifC14SymTimeout bool

// the same with any configured timeout between 1 s and 24 h
func VH_C14_lifetime_any_timeout() {
	verifC14SymTimeout = true
	defer func() { verifC14SymTimeout = false }()
	verifC14Life(2 + verifTier())
}

func VH_C14_lifetime() { verifC14Life(3) }

func VH_C14_lifetime_T() { verifC14Life(4) }

// a service with two packet listeners (one handler, two Handle calls): one listener is shut down;
// the associations of the other are not touched by that — still there at the last promised instant
func VH_C14_other_listeners_shutdown() {
	verifResetNet()
	verifTargetDeadlines = true
	verifDeadlineTargets = nil
	defer func() { verifTargetDeadlines = false }()
	tmo := 30 * time.Second
	cl, specs, _ := verifMakeList(1, 1, false)
	key := verifKey(specs[0].cipher, verifSecrets[specs[0].secret])
	um := &verifUDPMetrics{}
	h := NewPacketHandler(tmo, cl, um, nil)
	mk := func(port int) *verifChanPC {
		return &verifChanPC{in: make(chan verifRead), closedCh: make(chan struct{}), local: &net.UDPAddr{IP: net.IPv4(192, 0, 2, 1), Port: port}}
	}
	c1, c2 := mk(9), mk(10)
	done1, done2 := make(chan struct{}), make(chan struct{})
	go func() { h.Handle(c1); close(done1) }()
	go func() { h.Handle(c2); close(done2) }()
	tBefore := time.Now()
	verifInject(c1, verifPack(key, verifSocksV4([]byte{93, 184, 216, 34}, 443, []byte{'q'})), verifClientAddrs[0])
	verifPause()
	verifQuiesce()
	verifAssert("C14.other-listener.association-opened", len(um.entries) == 1 && len(verifDeadlineTargets) == 1)
	if len(verifDeadlineTargets) != 1 {
		return
	}
	// the other listener goes away (a reload dropped it)
	c2.Close()
	verifPause()
	verifQuiesce()
	<-done2
	p := tBefore.Add(tmo - time.Nanosecond)
	verifClockAtLeast(p)
	verifDeadlineTargets[0].setClock(p)
	verifPause()
	verifQuiesce()
	verifAssert("C14.other-listener.association-untouched-by-another-listeners-shutdown", um.entries[0].removed == 0 && verifDeadlineTargets[0].Closed() == 0)
	c1.Close()
	verifQuiesce()
	for _, t := range verifDeadlineTargets {
		t.setClock(time.Now().Add(time.Hour))
	}
	verifQuiesce()
	<-done1
	verifReach("C14.other-listener.done", true)
}

package service

// C05 (TCP, end to end): a request for a non-public destination is refused by the handler as the
// server builds it, whatever its logging level: no connection is attempted to that destination.

import (
	"context"
	"net"
	"strings"
	"sync/atomic"
	"time"

	"github.com/Jigsaw-Code/outline-sdk/transport"
)

var verifConnectAttempts []string

// verifModelDialStream is gosmt's model of (*transport.TCPDialer).DialStream for literal
// addresses (never called natively: the real dialer runs there). It does what net.Dialer does
// with its hooks: ControlContext takes precedence over Control; the hook sees the literal
// address about to be connected to and its error aborts the dial. A connection that is let
// through is recorded and then fails (there is no reachable target).
func verifModelDialStream(d *transport.TCPDialer, ctx context.Context, addr string) (transport.StreamConn, error) {
	network := "tcp4"
	if strings.HasPrefix(addr, "[") {
		network = "tcp6"
	}
	var cerr error
	switch {
	case d.Dialer.ControlContext != nil:
		cerr = d.Dialer.ControlContext(ctx, network, addr, nil)
	case d.Dialer.Control != nil:
		cerr = d.Dialer.Control(network, addr, nil)
	}
	if cerr != nil {
		return nil, &net.OpError{Op: "dial", Net: "tcp", Err: cerr}
	}
	verifConnectAttempts = append(verifConnectAttempts, addr)
	return nil, &net.OpError{Op: "dial", Net: "tcp", Err: errVerifFault}
}

var verifTargetLn net.Listener
var verifTargetAccepted atomic.Int64

// a TCP destination on the loopback interface: natively a real listener that counts what it accepts
func verifTCPTargetListen() int {
	verifConnectAttempts = nil
	if !verifNative() {
		return 9444
	}
	ln, err := net.Listen("tcp", "127.0.0.1:0")
	if err != nil {
		panic(err)
	}
	verifTargetLn = ln
	verifTargetAccepted.Store(0)
	go func() {
		for {
			c, err := ln.Accept()
			if err != nil {
				return
			}
			verifTargetAccepted.Add(1)
			c.Close()
		}
	}()
	return ln.Addr().(*net.TCPAddr).Port
}

func verifTCPTargetConnects() int {
	if !verifNative() {
		return len(verifConnectAttempts)
	}
	time.Sleep(50 * time.Millisecond)
	verifTargetLn.Close()
	return int(verifTargetAccepted.Load())
}

func VH_C05_tcp_refused_end_to_end() {
	cl, specs, entries := verifMakeList(1, 1, false)
	key := verifKey(specs[0].cipher, verifSecrets[specs[0].secret])
	port := verifTCPTargetListen()
	req := []byte{1, 127, 0, 0, 1, byte(port >> 8), byte(port), 'q'}
	if verifFlag("ipv6-loopback") {
		req = []byte{4, 0, 0, 0, 0, 0, 0, 0, 0, 0, 0, 0, 0, 0, 0, 0, 1, byte(port >> 8), byte(port), 'q'}
	}
	stream := verifClientStream(key, req)
	verifAssume(!entries[0].SaltGenerator.IsServerSalt(stream[:key.SaltSize()]))
	conn := &verifStreamConn{name: "client", remote: &net.TCPAddr{IP: net.IPv4(203, 0, 113, 5), Port: 50000}}
	conn.reads = []verifSRead{{data: stream}}
	// the handler as the server builds it: default (validating) target dialer
	h := NewStreamHandler(NewShadowsocksStreamAuthenticator(cl, nil, nil, nil), tcpReadTimeout)
	if verifFlag("debug-logging") {
		// the server run with -verbose: what is allowed must not depend on it
		verifDebugLogging(true)
		h.SetLogger(verifDebugLogger())
	}
	m := &verifTCPMetrics{}
	h.Handle(contextBackground(), conn, m)
	verifDebugLogging(false)
	verifQuiesce()
	verifAssert("C05.tcp-e2e.no-connection-to-loopback", verifTCPTargetConnects() == 0)
	verifAssert("C05.tcp-e2e.reported-as-refused", len(m.closed) == 1 && m.closed[0] != "OK")
	verifReach("C05.tcp-e2e.done", true)
}

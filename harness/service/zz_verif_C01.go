package service

// C01 — TCP access-key authentication is sound and complete for every key list (bounded N),
// every cipher mix, every client-IP / last-used-IP history.

import (
	"container/list"
	"net"
	"net/netip"
)

var verifSecrets = []string{"s1", "s2", "s3"}

type verifKeySpec struct {
	cipher, secret int
}

var verifEmptyIDs bool

func verifMakeList(n int, nSecrets int, withHistory bool) (CipherList, []verifKeySpec, []*CipherEntry) {
	l := list.New()
	specs := make([]verifKeySpec, n)
	entries := make([]*CipherEntry, n)
	// last-used addresses are recorded in the form remoteIP() yields for a connection
	ipA := remoteIP(&verifStreamConn{remote: &net.TCPAddr{IP: net.IPv4(203, 0, 113, 5), Port: 1}})
	ipB := remoteIP(&verifStreamConn{remote: &net.TCPAddr{IP: net.IPv4(203, 0, 113, 6), Port: 1}})
	for i := 0; i < n; i++ {
		specs[i] = verifKeySpec{verifChoice("cipher", 4), verifChoice("secret", nSecrets)}
		id := "id-" + string(rune('0'+i))
		if verifEmptyIDs {
			id = "" // ids are not validated by the configuration: the empty string is a possible id
		}
		e := MakeCipherEntry(id, verifKey(specs[i].cipher, verifSecrets[specs[i].secret]), verifSecrets[specs[i].secret])
		if withHistory {
			switch verifChoice("last-ip", 3) {
			case 1:
				e.lastClientIP = ipA
			case 2:
				e.lastClientIP = ipB
			}
		}
		entries[i] = &e
		l.PushBack(&e)
	}
	cl := NewCipherList()
	cl.Update(l)
	return cl, specs, entries
}

func verifC01(maxN int, nSecrets int) {
	n := 1 + verifChoice("nkeys", maxN)
	cl, specs, entries := verifMakeList(n, nSecrets, true)
	// the client's key: any cipher/secret, configured or not
	ck := verifKeySpec{verifChoice("client-cipher", 4), verifChoice("client-secret", nSecrets)}
	clientKey := verifKey(ck.cipher, verifSecrets[ck.secret])
	configured := false
	for i := range specs {
		if specs[i] == ck {
			configured = true
		}
	}
	conn := &verifStreamConn{name: "client"}
	switch verifChoice("client-ip", 3) {
	case 0:
		conn.remote = &net.TCPAddr{IP: net.IPv4(203, 0, 113, 5), Port: 50000}
	case 1:
		conn.remote = &net.TCPAddr{IP: net.IPv4(203, 0, 113, 77), Port: 50000}
	case 2:
		conn.remote = nil
	}
	stream := verifClientStream(clientKey, []byte{1, 93, 184, 216, 34, 0, 80, 'h', 'i'})
	conn.reads = []verifSRead{{data: stream}}

	// permutation property of the snapshot, for this client IP
	snap := cl.SnapshotForClientIP(remoteIP(conn))
	verifAssert("C01.snapshot.length", len(snap) == n)
	for i := range snap {
		verifAssert("C01.snapshot.non-nil", snap[i] != nil)
		for j := 0; j < i; j++ {
			verifAssert("C01.snapshot.distinct", snap[i] != snap[j])
		}
	}

	entry, _, salt, _, err := findAccessKey(conn, remoteIP(conn), cl, noopLogger())
	if configured {
		verifAssert("C01.complete.found", err == nil && entry != nil)
		if entry != nil {
			// attributed to an entry configured with exactly that cipher and secret
			idx := -1
			for i := range entries {
				if entries[i] == entry {
					idx = i
				}
			}
			verifAssert("C01.sound.entry-from-list", idx >= 0)
			verifAssert("C01.sound.same-key", idx >= 0 && specs[idx] == ck)
			verifAssert("C01.salt-is-prefix", len(salt) == clientKey.SaltSize())
			front := cl.SnapshotForClientIP(netip.Addr{})
			// (the search order is an optimisation, not part of the property: observed, not required)
			verifReach("C01.marked-front", front[0].Value.(*CipherEntry) == entry)
			verifReach("C01.marked-ip", entry.lastClientIP == remoteIP(conn))
			verifReach("C01.found-not-first", idx > 0)
		}
		verifReach("C01.authenticated", true)
	} else {
		verifAssert("C01.none.not-found", err != nil && entry == nil)
		verifReach("C01.rejected-unconfigured", true)
	}
	verifAssert("C01.no-write-during-search", conn.writeCalls == 0)
	// list still well-formed: same multiset
	after := cl.SnapshotForClientIP(netip.Addr{})
	verifAssert("C01.list-length-kept", len(after) == n)
	for i := range entries {
		found := 0
		for j := range after {
			if after[j].Value.(*CipherEntry) == entries[i] {
				found++
			}
		}
		verifAssert("C01.list-same-entries", found == 1)
	}
}

func VH_C01_auth() { verifC01(2, 2) }

func VH_C01_auth_T() { verifC01(3, 2) }

// attacker bytes (never produced under any configured key) never authenticate
func VH_C01_invalid() {
	n := 1 + verifChoice("nkeys", 2)
	cl, _, _ := verifMakeList(n, 2, false)
	conn := &verifStreamConn{name: "client", remote: &net.TCPAddr{IP: net.IPv4(203, 0, 113, 5), Port: 50000}}
	conn.reads = []verifSRead{{data: verifBytes("probe", 60)}}
	entry, _, _, _, err := findAccessKey(conn, remoteIP(conn), cl, noopLogger())
	verifAssert("C01.invalid.rejected", entry == nil && err != nil)
	verifAssert("C01.invalid.no-write", conn.writeCalls == 0)
	verifReach("C01.invalid.done", true)
}

// a valid stream with one byte of the key-finding block changed never authenticates
func VH_C01_bitflip() {
	cl, specs, _ := verifMakeList(1, 2, false)
	key := verifKey(specs[0].cipher, verifSecrets[specs[0].secret])
	stream := verifClientStream(key, []byte{1, 93, 184, 216, 34, 0, 80})
	k := verifChoice("pos", key.SaltSize()+2+16)
	d := verifU8("delta")
	verifAssume(d != 0)
	stream[k] ^= d
	conn := &verifStreamConn{name: "client", remote: &net.TCPAddr{IP: net.IPv4(203, 0, 113, 5), Port: 50000}}
	conn.reads = []verifSRead{{data: stream}}
	entry, _, _, _, err := findAccessKey(conn, remoteIP(conn), cl, noopLogger())
	verifAssert("C01.bitflip.rejected", entry == nil && err != nil)
	verifReach("C01.bitflip.done", true)
}

// a snapshot taken while another connection marks a key as used still contains every key once
func VH_C01_concurrent_snapshot() {
	verifSched(1)
	n, k, reps := 2, 1, 1
	if verifNative() {
		n, k, reps = 600, 6, 200 // a long list widens the window between the two passes natively
	}
	for rep := 0; rep < reps; rep++ {
		l := list.New()
		for i := 0; i < n; i++ {
			e := MakeCipherEntry("id", verifKey(0, "s1"), "s1")
			l.PushBack(&e)
		}
		cl := NewCipherList()
		cl.Update(l)
		ip := remoteIP(&verifStreamConn{remote: &net.TCPAddr{IP: net.IPv4(203, 0, 113, 5), Port: 1}})
		base := cl.SnapshotForClientIP(netip.Addr{})
		snaps := make([][]*list.Element, k)
		fs := make([]func(), 0, k+2)
		for i := 0; i < k; i++ {
			i := i
			fs = append(fs, func() { snaps[i] = cl.SnapshotForClientIP(ip) })
		}
		fs = append(fs, func() { cl.MarkUsedByClientIP(base[n-1], ip) })
		if verifNative() {
			fs = append(fs, func() { cl.MarkUsedByClientIP(base[n/2], ip) })
		}
		verifParStart(make(chan struct{}), fs...)
		for _, snap := range snaps {
			verifAssert("C01.concurrent.snapshot-length|C03.concurrent.snapshot-length|C09.concurrent.snapshot-length", len(snap) == n)
			complete := len(snap) == n
			for _, el := range snap {
				if el == nil {
					complete = false
				}
			}
			verifAssert("C01.concurrent.snapshot-complete|C03.concurrent.snapshot-complete|C09.concurrent.snapshot-complete", complete)
		}
	}
	verifReach("C01.concurrent.done", true)
}

// the snapshot for any client address over any last-used-address history (addresses symbolic):
// a permutation of the list, entries last used by this client first, each group in list order
func VH_C01_snapshot_symbolic() {
	n := 2 + verifChoice("n", 2)
	l := list.New()
	entries := make([]*CipherEntry, n)
	zero := netip.Addr{}
	for i := 0; i < n; i++ {
		e := MakeCipherEntry("id", verifKey(0, "s1"), "s1")
		if verifFlag("has-history") {
			b := verifBytes("last", 4)
			e.lastClientIP = netip.AddrFrom4([4]byte{b[0], b[1], b[2], b[3]})
		}
		entries[i] = &e
		l.PushBack(&e)
	}
	cl := NewCipherList()
	cl.Update(l)
	client := zero
	if verifFlag("client-known") {
		b := verifBytes("client", 4)
		client = netip.AddrFrom4([4]byte{b[0], b[1], b[2], b[3]})
	}
	snap := cl.SnapshotForClientIP(client)
	verifAssert("C01.symsnap.length|C03.symsnap.length|C09.symsnap.length", len(snap) == n)
	if len(snap) != n {
		return
	}
	// position of every entry in the snapshot
	pos := make([]int, n)
	for i := range entries {
		pos[i] = -1
		for j := range snap {
			if snap[j] != nil && snap[j].Value.(*CipherEntry) == entries[i] {
				verifAssert("C01.symsnap.once|C03.symsnap.once|C09.symsnap.once", pos[i] == -1)
				pos[i] = j
			}
		}
		verifAssert("C01.symsnap.present|C03.symsnap.present|C09.symsnap.present", pos[i] >= 0)
	}
	for i := 0; i < n; i++ {
		for j := i + 1; j < n; j++ {
			mi := verifAll(client != zero, entries[i].lastClientIP == client)
			mj := verifAll(client != zero, entries[j].lastClientIP == client)
			// same group: list order kept; different groups: the matching one first
			// the order of the snapshot is an optimisation (keys last used by this client first):
			// observed, not required by the property
			verifReach("C01.symsnap.matching-first", verifAll(mj, !mi, pos[j] < pos[i]))
		}
	}
	verifReach("C01.symsnap.reordered", pos[0] > pos[1])
}

// after the key list is replaced, exactly the keys of the new list authenticate: an id kept
// with a new secret or cipher stops accepting the old one
func VH_C01_update_replaces_keys() {
	mk := func(ids []string, ks []verifKeySpec) *list.List {
		l := list.New()
		for i := range ids {
			e := MakeCipherEntry(ids[i], verifKey(ks[i].cipher, verifSecrets[ks[i].secret]), verifSecrets[ks[i].secret])
			l.PushBack(&e)
		}
		return l
	}
	old := []verifKeySpec{{verifChoice("c0", 4), 0}, {0, 2}}
	neu := []verifKeySpec{{verifChoice("c1", 4), verifChoice("s1", 2)}, {0, 2}}
	cl := NewCipherList()
	cl.Update(mk([]string{"user-0", "user-1"}, old))
	if verifFlag("used-before-reload") {
		s := cl.SnapshotForClientIP(netip.Addr{})
		cl.MarkUsedByClientIP(s[0], remoteIP(&verifStreamConn{remote: &net.TCPAddr{IP: net.IPv4(203, 0, 113, 5), Port: 1}}))
	}
	var stale []*list.Element
	markStale := verifFlag("connection-spans-the-reload")
	if markStale {
		// a connection took its snapshot before the reload ...
		stale = cl.SnapshotForClientIP(netip.Addr{})
	}
	cl.Update(mk([]string{"user-0", "user-1"}, neu))
	if markStale {
		// ... and finishes authenticating (marks its key used) after it
		cl.MarkUsedByClientIP(stale[0], remoteIP(&verifStreamConn{remote: &net.TCPAddr{IP: net.IPv4(203, 0, 113, 5), Port: 1}}))
		verifAssert("C01.update.snapshot-is-the-new-list", len(cl.SnapshotForClientIP(netip.Addr{})) == 2)
	}
	nth := 0
	try := func(k verifKeySpec) (*CipherEntry, error) {
		conn := &verifStreamConn{name: "client", remote: &net.TCPAddr{IP: net.IPv4(203, 0, 113, 5), Port: 50000}}
		// client salts are fixed and distinct (a random salt equal to an earlier ciphertext is a
		// negligible-probability event outside the property)
		buf := &verifBuf{}
		nth++
		w := verifNewWriterWithSalt(buf, verifKey(k.cipher, verifSecrets[k.secret]), verifFixedSaltGen{nth})
		w.Write([]byte{1, 93, 184, 216, 34, 0, 80, 'x'})
		conn.reads = []verifSRead{{data: buf.b}}
		e, _, _, _, err := findAccessKey(conn, remoteIP(conn), cl, noopLogger())
		return e, err
	}
	e, err := try(neu[0])
	verifAssert("C01.update.new-key-authenticates", err == nil && e != nil && e.ID == "user-0")
	if old[0] != neu[0] {
		e, err = try(old[0])
		verifAssert("C01.update.replaced-key-rejected", err != nil && e == nil)
		verifReach("C01.update.rotated", true)
	}
	e, err = try(neu[1])
	verifAssert("C01.update.kept-key-authenticates", err == nil && e != nil && e.ID == "user-1")
}

// the same for datagrams: after the key list is replaced, a datagram is accepted only under a
// key of the new list
func VH_C03_update_replaces_keys() {
	mk := func(ids []string, ks []verifKeySpec) *list.List {
		l := list.New()
		for i := range ids {
			e := MakeCipherEntry(ids[i], verifKey(ks[i].cipher, verifSecrets[ks[i].secret]), verifSecrets[ks[i].secret])
			l.PushBack(&e)
		}
		return l
	}
	old := []verifKeySpec{{verifChoice("c0", 4), 0}, {0, 2}}
	neu := []verifKeySpec{{verifChoice("c1", 4), verifChoice("s1", 2)}, {0, 2}}
	cl := NewCipherList()
	cl.Update(mk([]string{"user-0", "user-1"}, old))
	ip := netip.AddrFrom4([4]byte{203, 0, 113, 5})
	if verifFlag("used-before-reload") {
		s := cl.SnapshotForClientIP(netip.Addr{})
		cl.MarkUsedByClientIP(s[0], ip)
	}
	cl.Update(mk([]string{"user-0", "user-1"}, neu))
	try := func(k verifKeySpec) (string, error) {
		pkt := verifPack(verifKey(k.cipher, verifSecrets[k.secret]), verifSocksV4([]byte{93, 184, 216, 34}, 53, []byte("q")))
		_, id, _, err := findAccessKeyUDP(ip, make([]byte, 128), pkt, cl, noopLogger())
		return id, err
	}
	id, err := try(neu[0])
	verifAssert("C03.update.new-key-accepted", err == nil && id == "user-0")
	if old[0] != neu[0] {
		_, err = try(old[0])
		verifAssert("C03.update.replaced-key-rejected", err != nil)
		verifReach("C03.update.rotated", true)
	}
	id, err = try(neu[1])
	verifAssert("C03.update.kept-key-accepted", err == nil && id == "user-1")
}

// the declared length of the first chunk is any value a conforming client can send (0..0x3FFF):
// the stream authenticates whatever that length is
func VH_C01_any_first_length() {
	cl, specs, _ := verifMakeList(1, 1, false)
	key := verifKey(specs[0].cipher, verifSecrets[specs[0].secret])
	salt := make([]byte, key.SaltSize())
	verifFixedSaltGen{3}.GetSalt(salt)
	aead, err := key.NewAEAD(salt)
	verifAssert("C01.first-length.aead", err == nil)
	l := verifU16("declared-length")
	verifAssume(l <= 0x3FFF)
	block := aead.Seal(nil, make([]byte, aead.NonceSize()), []byte{byte(l >> 8), byte(l)}, nil)
	stream := append(append([]byte{}, salt...), block...)
	stream = append(stream, verifBytes("rest", 24)...)
	conn := &verifStreamConn{name: "client", remote: &net.TCPAddr{IP: net.IPv4(203, 0, 113, 5), Port: 50000}}
	conn.reads = []verifSRead{{data: stream}}
	e, _, _, _, ferr := findAccessKey(conn, remoteIP(conn), cl, noopLogger())
	verifAssert("C01.first-length.authenticated-whatever-the-length", ferr == nil && e != nil && e.ID == "id-0")
	verifReach("C01.first-length.maximum", l == 0x3FFF)
	verifReach("C01.first-length.zero", l == 0)
}

// the salt is the client's choice (clients may start it with a fixed prefix that looks like
// another protocol): whatever its first bytes are, a stream under a configured key authenticates
func VH_C01_any_salt_prefix() {
	cl, specs, entries := verifMakeList(1+verifChoice("nkeys", 2), 2, false)
	which := verifChoice("which", len(specs))
	for i := 0; i < which; i++ {
		verifAssume(specs[i] != specs[which])
	}
	key := verifKey(specs[which].cipher, verifSecrets[specs[which].secret])
	salt := make([]byte, key.SaltSize())
	verifFixedSaltGen{4}.GetSalt(salt)
	copy(salt, verifBytes("salt-prefix", 8))
	verifAssume(!entries[which].SaltGenerator.IsServerSalt(salt))
	aead, err := key.NewAEAD(salt)
	verifAssert("C01.salt-prefix.aead", err == nil)
	block := aead.Seal(nil, make([]byte, aead.NonceSize()), []byte{0, 9}, nil)
	stream := append(append([]byte{}, salt...), block...)
	stream = append(stream, verifBytes("rest", 25)...)
	conn := &verifStreamConn{name: "client", remote: &net.TCPAddr{IP: net.IPv4(203, 0, 113, 5), Port: 50000}}
	conn.reads = []verifSRead{{data: stream}}
	e, _, _, _, ferr := findAccessKey(conn, remoteIP(conn), cl, noopLogger())
	verifAssert("C01.salt-prefix.authenticated-whatever-the-salt-starts-with", ferr == nil && e != nil && e.ID == entries[which].ID)
	verifReach("C01.salt-prefix.looks-like-http", salt[0] == 'G' && salt[1] == 'E' && salt[2] == 'T' && salt[3] == ' ')
}

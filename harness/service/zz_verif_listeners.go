package service

// C12 / C13 / C19(listeners) — shared listeners: exactly-once delivery, close semantics, release,
// lock ordering. Natively these run on real loopback TCP sockets and a channel-based packet fake.

import (
	"container/list"
	"errors"
	"net"
	"os"
	"sync"
	"syscall"
	"time"

	"github.com/Jigsaw-Code/outline-sdk/transport"
)

// blocking packet socket built on channels
type verifChanPC struct {
	in         chan verifRead
	closedCh   chan struct{}
	expireCh   chan struct{} // nil = never
	mu         sync.Mutex
	closed     int
	local      net.Addr
	onClose    func() // native barrier hook for lock-order replays
	afterClose func() // runs when the socket has just been closed
	reads      int
	gen        int
	expired    bool
	written    []verifWrite
}

func (c *verifChanPC) ReadFrom(p []byte) (int, net.Addr, error) {
	select {
	case r := <-c.in:
		c.mu.Lock()
		c.reads++
		c.mu.Unlock()
		if r.err != nil {
			return 0, nil, r.err // a transient read error
		}
		return copy(p, r.data), r.addr, nil
	case <-c.closedCh:
		return 0, nil, net.ErrClosed
	case <-c.expireCh:
		return 0, nil, verifTimeoutErr{}
	}
}

// Closed: how often Close was called (synchronised)
func (c *verifChanPC) Closed() int {
	c.mu.Lock()
	defer c.mu.Unlock()
	return c.closed
}

// Expire makes pending and later reads time out (the read deadline passed)
func (c *verifChanPC) Expire() {
	c.mu.Lock()
	if !c.expired {
		c.expired = true
		close(c.expireCh)
	}
	c.mu.Unlock()
}
func (c *verifChanPC) WriteTo(p []byte, addr net.Addr) (int, error) {
	c.mu.Lock()
	if c.closed > 0 {
		c.mu.Unlock()
		return 0, net.ErrClosed // as a real socket after Close
	}
	c.written = append(c.written, verifWrite{append([]byte{}, p...), addr})
	c.mu.Unlock()
	return len(p), nil
}

// Written returns the datagrams sent through the socket so far
func (c *verifChanPC) Written() []verifWrite {
	c.mu.Lock()
	defer c.mu.Unlock()
	return append([]verifWrite{}, c.written...)
}
func (c *verifChanPC) Close() error {
	if c.onClose != nil {
		c.onClose()
	}
	c.mu.Lock()
	c.closed++
	n := c.closed
	if n == 1 {
		close(c.closedCh)
	}
	c.mu.Unlock()
	if c.afterClose != nil {
		c.afterClose()
	}
	if n > 1 {
		return net.ErrClosed
	}
	return nil
}
func (c *verifChanPC) LocalAddr() net.Addr            { return c.local }
func (c *verifChanPC) SetDeadline(t verifTimeT) error { return nil }
func (c *verifChanPC) SetReadDeadline(t verifTimeT) error {
	if c.Closed() > 0 {
		return net.ErrClosed
	}
	// a deadline that has already passed makes pending and later reads time out
	if c.expireCh != nil && !t.IsZero() && !t.After(time.Now()) {
		c.mu.Lock()
		if !c.expired {
			c.expired = true
			close(c.expireCh)
		}
		c.mu.Unlock()
	}
	return nil
}
func (c *verifChanPC) SetWriteDeadline(t verifTimeT) error { return nil }

var (
	verifBoundPC     = map[string]*verifChanPC{}
	verifBoundPCHook func()
	verifPCMu        sync.Mutex
)

// VerifListenPacketHook runs when a packet listener is about to be bound (a point in the middle
// of starting a configuration at which other things can happen)
var VerifListenPacketHook func(address string)

func verifListenSharedPacket(address string) (net.PacketConn, error) {
	if VerifListenPacketHook != nil {
		VerifListenPacketHook(address)
	}
	verifPCMu.Lock()
	defer verifPCMu.Unlock()
	if pc, ok := verifBoundPC[address]; ok && pc.closed == 0 {
		return nil, &net.OpError{Op: "listen", Net: "udp", Err: os.NewSyscallError("bind", syscall.EADDRINUSE)}
	}
	verifPacketGen[address]++
	pc := &verifChanPC{in: make(chan verifRead), closedCh: make(chan struct{}), local: &net.UDPAddr{IP: net.IPv4(127, 0, 0, 1), Port: 9000}, onClose: verifBoundPCHook, gen: verifPacketGen[address]}
	verifBoundPC[address] = pc
	return pc, nil
}

type verifAcc struct {
	conn transport.StreamConn
	err  error
}

func verifAcceptAsync(h StreamListener) chan verifAcc {
	ch := make(chan verifAcc, 1)
	go func() {
		c, err := h.AcceptStream()
		ch <- verifAcc{c, err}
	}()
	return ch
}

const verifAcceptLoop = "multiStreamListener).Acquire"
const verifReadLoop = "multiPacketListener).Acquire"

// one connection, two acceptors: exactly one gets it; closing handles unblocks the pending one;
// after the last close the socket is released and nothing keeps running
func VH_C12_stream_once() {
	verifSched(1 + verifTier())
	closes := 0
	ml := NewMultiStreamListener("127.0.0.1:0", func() error { closes++; return nil })
	h1, err1 := ml.Acquire()
	h2, err2 := ml.Acquire()
	verifAssert("C12.stream.acquire", err1 == nil && err2 == nil)
	addr := h1.Addr()
	r1 := verifAcceptAsync(h1)
	r2 := verifAcceptAsync(h2)
	id := verifDialTCP(addr)
	verifAssert("C12.stream.dial", id == 0)
	verifQuiesce()
	verifAssert("C12.stream.delivered-exactly-once", len(r1)+len(r2) == 1)
	var got verifAcc
	first := len(r1) == 1
	if first {
		got = <-r1
	} else {
		got = <-r2
	}
	verifAssert("C12.stream.delivered-the-connection", got.err == nil && verifTCPConnID(got.conn) == 0)
	// close the handle that is still waiting: its accept returns ErrClosed, the other handle is unaffected
	if first {
		verifAssert("C12.stream.close-ok", h2.Close() == nil)
		verifQuiesce()
		verifAssert("C12.stream.pending-accept-unblocked", len(r2) == 1)
		if len(r2) == 1 {
			a := <-r2
			verifAssert("C12.stream.unblocked-with-errclosed", a.conn == nil && errors.Is(a.err, net.ErrClosed))
		}
		verifReach("C12.stream.first-handle-won", true)
	} else {
		verifAssert("C12.stream.close-ok", h1.Close() == nil)
		verifQuiesce()
		verifAssert("C12.stream.pending-accept-unblocked", len(r1) == 1)
		if len(r1) == 1 {
			a := <-r1
			verifAssert("C12.stream.unblocked-with-errclosed", a.conn == nil && errors.Is(a.err, net.ErrClosed))
		}
		verifReach("C12.stream.second-handle-won", true)
	}
	verifAssert("C12.stream.socket-kept-while-in-use", closes == 0)
	// a second connection goes to the handle that is still open
	id2 := verifDialTCP(addr)
	verifAssert("C12.stream.still-listening", id2 == 1)
	var open StreamListener = h1
	if !first {
		open = h2
	}
	r3 := verifAcceptAsync(open)
	verifQuiesce()
	verifAssert("C12.stream.second-delivered", len(r3) == 1)
	if len(r3) == 1 {
		a := <-r3
		verifAssert("C12.stream.second-is-second", a.err == nil && verifTCPConnID(a.conn) == 1)
	}
	verifAssert("C12.stream.last-close-ok", open.Close() == nil)
	verifQuiesce()
	verifAssert("C12.stream.callback-once", closes == 1)
	verifAssert("C12.stream.nothing-running", verifBlockedIn(verifAcceptLoop) == 0)
	// later calls on closed handles keep failing the same way; double close is a no-op
	_, e1 := h1.AcceptStream()
	_, e2 := h2.AcceptStream()
	verifAssert("C12.stream.closed-handle-errclosed", errors.Is(e1, net.ErrClosed) && errors.Is(e2, net.ErrClosed))
	verifAssert("C12.stream.double-close-noop", h1.Close() == nil && h2.Close() == nil && closes == 1)
	// the address can be bound again
	ta := addr.(*net.TCPAddr)
	ln, err := net.ListenTCP("tcp", ta)
	verifAssert("C12.stream.address-released", err == nil)
	if err == nil {
		ln.Close()
	}
}

// a connection accepted while nobody is accepting, then the last handle closes: the connection
// must be closed rather than left hanging, and the accept goroutine must end
func VH_C12_stream_orphan() {
	ml := NewMultiStreamListener("127.0.0.1:0", nil)
	h1, err := ml.Acquire()
	verifAssert("C12.orphan.acquire", err == nil)
	id := verifDialTCP(h1.Addr())
	verifAssert("C12.orphan.dial", id == 0)
	verifQuiesce()
	verifAssert("C12.orphan.close-ok", h1.Close() == nil)
	verifQuiesce()
	verifAssert("C12.orphan.connection-closed", verifTCPPeerClosed(0))
	verifAssert("C12.orphan.nothing-running", verifBlockedIn(verifAcceptLoop) == 0)
	verifReach("C12.orphan.done", true)
}

type verifPkt struct {
	n    int
	addr net.Addr
	err  error
	data []byte
}

func verifReadAsync(h net.PacketConn) chan verifPkt {
	ch := make(chan verifPkt, 1)
	go func() {
		buf := make([]byte, 8)
		n, a, err := h.ReadFrom(buf)
		ch <- verifPkt{n, a, err, buf}
	}()
	return ch
}

func verifInject(pc *verifChanPC, data []byte, from net.Addr) {
	pc.in <- verifRead{data: data, addr: from}
}

// packets: one datagram, two readers: exactly one gets it, intact
func VH_C12_packet_once() {
	verifSched(1 + verifTier())
	closes := 0
	ml := NewMultiPacketListener("127.0.0.1:9000", func() error { closes++; return nil })
	h1, err1 := ml.Acquire()
	h2, err2 := ml.Acquire()
	verifAssert("C12.packet.acquire", err1 == nil && err2 == nil)
	pc := verifBoundPC["127.0.0.1:9000"]
	r1 := verifReadAsync(h1)
	r2 := verifReadAsync(h2)
	from := &net.UDPAddr{IP: net.IPv4(203, 0, 113, 5), Port: 4000}
	payload := verifBytes("dgram", 3)
	verifInject(pc, payload, from)
	verifQuiesce()
	verifAssert("C12.packet.delivered-exactly-once", len(r1)+len(r2) == 1)
	var got verifPkt
	first := len(r1) == 1
	if first {
		got = <-r1
	} else {
		got = <-r2
	}
	verifAssert("C12.packet.intact", got.err == nil && got.n == 3 && verifBytesEq(got.data[:3], payload) && got.addr == net.Addr(from))
	// closing the waiting handle unblocks it with ErrClosed
	var waiting, other net.PacketConn = h2, h1
	rw := r2
	if !first {
		waiting, other = h1, h2
		rw = r1
	}
	verifAssert("C12.packet.close-ok", waiting.Close() == nil)
	verifQuiesce()
	verifAssert("C12.packet.pending-read-unblocked", len(rw) == 1)
	if len(rw) == 1 {
		a := <-rw
		verifAssert("C12.packet.unblocked-with-errclosed", errors.Is(a.err, net.ErrClosed))
	}
	verifAssert("C12.packet.socket-kept", pc.closed == 0 && closes == 0)
	verifAssert("C12.packet.last-close-ok", other.Close() == nil)
	verifQuiesce()
	verifAssert("C12.packet.socket-released", pc.closed == 1 && closes == 1)
	verifAssert("C12.packet.nothing-running", verifBlockedIn(verifReadLoop) == 0)
	verifReach("C12.packet.done", true)
}

// a closed handle never receives a datagram, whatever the select picks
func VH_C12_packet_closed_handle() {
	for rep := 0; rep < verifRepeat(30); rep++ {
		delete(verifBoundPC, "127.0.0.1:9000")
		ml := NewMultiPacketListener("127.0.0.1:9000", nil)
		h1, _ := ml.Acquire()
		h2, _ := ml.Acquire()
		pc := verifBoundPC["127.0.0.1:9000"]
		verifAssert("C12.closed-handle.close-ok", h2.Close() == nil)
		go verifInject(pc, []byte{1, 2, 3}, &net.UDPAddr{IP: net.IPv4(203, 0, 113, 5), Port: 4000})
		verifQuiesce() // the shared reader now holds the datagram and waits for a request
		buf := make([]byte, 8)
		n, _, err := h2.ReadFrom(buf)
		verifAssert("C12.closed-handle.read-fails", errors.Is(err, net.ErrClosed) && n == 0)
		// the datagram is still there for the open handle
		r1 := verifReadAsync(h1)
		verifQuiesce()
		verifAssert("C12.closed-handle.open-handle-gets-it", len(r1) == 1)
		h1.Close()
		verifQuiesce()
	}
	verifReach("C12.closed-handle.done", true)
}

// release and re-acquire on the same shared listener object
func VH_C12_packet_reacquire() {
	delete(verifBoundPC, "127.0.0.1:9000")
	ml := NewMultiPacketListener("127.0.0.1:9000", nil)
	h1, err := ml.Acquire()
	verifAssert("C12.reacquire.first", err == nil)
	first := verifBoundPC["127.0.0.1:9000"]
	verifAssert("C12.reacquire.close-ok", h1.Close() == nil)
	verifQuiesce()
	verifAssert("C12.reacquire.released", first.closed == 1)
	h2, err := ml.Acquire()
	verifAssert("C12.reacquire.second", err == nil)
	second := verifBoundPC["127.0.0.1:9000"]
	verifAssert("C12.reacquire.fresh-socket", second != first && second.closed == 0)
	r := verifReadAsync(h2)
	go verifInject(second, []byte{7}, &net.UDPAddr{IP: net.IPv4(203, 0, 113, 5), Port: 4000})
	verifQuiesce()
	verifAssert("C12.reacquire.delivers", len(r) == 1)
	verifAssert("C12.reacquire.close-again-ok", h2.Close() == nil)
	verifQuiesce()
	verifAssert("C12.reacquire.released-again", second.closed == 1 && verifBlockedIn(verifReadLoop) == 0)
	verifReach("C12.reacquire.done", true)
}

// C13: a listen call racing with the last close of the same address must both return
func VH_C13_listen_vs_close() {
	verifSched(2)
	delete(verifBoundPC, "127.0.0.1:9000")
	lm, isLM := NewListenerManager().(*listenerManager)
	verifAssume(isLM) // otherwise this harness does not apply
	var t1started sync.WaitGroup
	if verifNative() {
		// native replay: hold the closing goroutine inside the shared listener's critical section
		// until the listening goroutine has taken the manager's lock (deterministic schedule)
		verifBoundPCHook = func() {
			t1started.Wait()
			for end := time.Now().Add(5 * time.Second); time.Now().Before(end); {
				if lm.mu.TryLock() {
					lm.mu.Unlock()
					verifYield()
				} else {
					return
				}
			}
		}
		t1started.Add(1)
	}
	h1, err := lm.ListenPacket("127.0.0.1:9000")
	verifAssert("C13.first-listen", err == nil)
	done1, done2 := make(chan error, 1), make(chan error, 1)
	go func() { done2 <- h1.Close() }()
	go func() {
		if verifNative() {
			t1started.Done()
		}
		h, err := lm.ListenPacket("127.0.0.1:9000")
		if err == nil {
			h.Close()
		}
		done1 <- nil
	}()
	verifQuiesce()
	verifBoundPCHook = nil
	verifAssert("C13.all-calls-return", len(done1) == 1 && len(done2) == 1)
	verifReach("C13.done", true)
}

func VH_C13_listen_vs_close_stream() {
	for rep := 0; rep < verifRepeat(1500); rep++ {
		verifSched(2)
		lm := NewListenerManager()
		h1, err := lm.ListenStream("127.0.0.1:0")
		verifAssert("C13.stream.first-listen", err == nil)
		addr := "127.0.0.1:0" // the manager shares listeners by the configured address text
		done1, done2 := make(chan error, 1), make(chan error, 1)
		var h2 StreamListener
		go func() { done2 <- h1.Close() }()
		go func() {
			h, err := lm.ListenStream(addr)
			if err == nil {
				h2 = h
			}
			done1 <- err
		}()
		verifQuiesce()
		verifSched(0)
		verifAssert("C13.stream.all-calls-return", len(done1) == 1 && len(done2) == 1)
		if len(done1) != 1 || len(done2) != 1 {
			return
		}
		// the manager is usable: the handle it just returned takes connections
		verifAssert("C13.stream.listen-succeeded", <-done1 == nil && h2 != nil)
		if h2 != nil {
			r := verifAcceptAsync(h2)
			id := verifDialTCP(h2.Addr())
			verifQuiesce()
			verifAssert("C13.stream.manager-usable-afterwards", id >= 0 && len(r) == 1)
			if len(r) == 1 {
				if a := <-r; a.conn != nil {
					a.conn.Close()
				}
			}
			h2.Close()
			verifQuiesce()
		}
	}
	verifReach("C13.stream.done", true)
}

// other mixtures of listen and close calls must all return (different addresses, both kinds,
// concurrent first listens, concurrent closes of two handles)
func VH_C13_mixtures() {
	verifSched(2)
	delete(verifBoundPC, "127.0.0.1:9000")
	delete(verifBoundPC, "127.0.0.1:9001")
	lm := NewListenerManager()
	done := make(chan int, 4)
	switch verifChoice("mix", 4) {
	case 0: // two first listens on the same packet address
		for i := 0; i < 2; i++ {
			go func() {
				h, err := lm.ListenPacket("127.0.0.1:9000")
				if err == nil {
					h.Close()
				}
				done <- 1
			}()
		}
	case 1: // listen+close on different addresses
		go func() {
			h, err := lm.ListenPacket("127.0.0.1:9000")
			if err == nil {
				h.Close()
			}
			done <- 1
		}()
		go func() {
			h, err := lm.ListenPacket("127.0.0.1:9001")
			if err == nil {
				h.Close()
			}
			done <- 1
		}()
	case 2: // two handles of one address closed concurrently
		h1, _ := lm.ListenPacket("127.0.0.1:9000")
		h2, _ := lm.ListenPacket("127.0.0.1:9000")
		go func() { h1.Close(); done <- 1 }()
		go func() { h2.Close(); done <- 1 }()
	case 3: // stream and packet on the same address text
		go func() {
			h, err := lm.ListenStream("127.0.0.1:0")
			if err == nil {
				h.Close()
			}
			done <- 1
		}()
		go func() {
			h, err := lm.ListenPacket("127.0.0.1:9000")
			if err == nil {
				h.Close()
			}
			done <- 1
		}()
	}
	verifQuiesce()
	verifAssert("C13.mixtures.all-calls-return", len(done) == 2)
	if len(done) == 2 {
		// the manager is still usable
		h, err := lm.ListenPacket("127.0.0.1:9001")
		verifAssert("C13.mixtures.manager-usable", err == nil)
		if err == nil {
			h.Close()
		}
	}
	verifReach("C13.mixtures.done", true)
}

// ---- exported helpers for harnesses of other packages (cmd/outline-ss-server) ----

// VerifInjectUDP delivers a datagram to the shared packet socket bound at address.
func VerifInjectUDP(address string, data []byte, from net.Addr) bool {
	verifPCMu.Lock()
	pc, ok := verifBoundPC[address]
	verifPCMu.Unlock()
	if !ok || pc.closed > 0 {
		return false
	}
	select {
	case pc.in <- verifRead{data: data, addr: from}:
		return true
	case <-pc.closedCh:
		return false
	}
}

// VerifPacketBound: is a shared packet socket currently bound at address?
func VerifPacketBound(address string) bool {
	verifPCMu.Lock()
	defer verifPCMu.Unlock()
	pc, ok := verifBoundPC[address]
	return ok && pc.closed == 0
}

// VerifOccupyPacket binds address from outside so that the server's bind fails.
func VerifOccupyPacket(address string) {
	verifPCMu.Lock()
	defer verifPCMu.Unlock()
	verifBoundPC[address] = &verifChanPC{in: make(chan verifRead), closedCh: make(chan struct{})}
}

func VerifResetPackets() {
	verifPCMu.Lock()
	defer verifPCMu.Unlock()
	verifBoundPC = map[string]*verifChanPC{}
	verifTargets = nil
}

// VerifReleasePacket frees an address taken with VerifOccupyPacket.
func VerifReleasePacket(address string) {
	verifPCMu.Lock()
	defer verifPCMu.Unlock()
	delete(verifBoundPC, address)
}

// VerifPacketSocketClosed reports how many shared packet sockets were ever closed at address,
// and VerifPacketSocketGen a counter that changes when the address is re-bound.
var verifPacketGen = map[string]int{}

func VerifPacketSocketGen(address string) int {
	verifPCMu.Lock()
	defer verifPCMu.Unlock()
	pc, ok := verifBoundPC[address]
	if !ok {
		return -1
	}
	return pc.gen
}

// a failed Acquire (address in use) leaves no reference behind: a later Acquire works and its
// Close releases the socket
func VH_C12_acquire_failure() {
	closes := 0
	blocker, err := net.ListenTCP("tcp", &net.TCPAddr{IP: net.IPv4(127, 0, 0, 1), Port: 9301})
	verifAssert("C12.acqfail.blocker", err == nil)
	ms := NewMultiStreamListener("127.0.0.1:9301", func() error { closes++; return nil })
	_, err = ms.Acquire()
	verifAssert("C12.acqfail.stream-fails", err != nil)
	blocker.Close()
	h, err := ms.Acquire()
	verifAssert("C12.acqfail.stream-then-works", err == nil)
	if err == nil {
		verifAssert("C12.acqfail.stream-close-ok", h.Close() == nil)
		verifQuiesce()
		verifAssert("C12.acqfail.stream-callback", closes == 1)
		ln, err := net.ListenTCP("tcp", &net.TCPAddr{IP: net.IPv4(127, 0, 0, 1), Port: 9301})
		verifAssert("C12.acqfail.stream-released", err == nil)
		if err == nil {
			ln.Close()
		}
	}
	delete(verifBoundPC, "127.0.0.1:9000")
	VerifOccupyPacket("127.0.0.1:9000")
	pcloses := 0
	mp := NewMultiPacketListener("127.0.0.1:9000", func() error { pcloses++; return nil })
	_, err = mp.Acquire()
	verifAssert("C12.acqfail.packet-fails", err != nil)
	VerifReleasePacket("127.0.0.1:9000")
	p, err := mp.Acquire()
	verifAssert("C12.acqfail.packet-then-works", err == nil)
	if err == nil {
		pc := verifBoundPC["127.0.0.1:9000"]
		verifAssert("C12.acqfail.packet-close-ok", p.Close() == nil)
		verifQuiesce()
		verifAssert("C12.acqfail.packet-released", pc.Closed() == 1 && pcloses == 1)
	}
	verifAssert("C12.acqfail.nothing-running", verifBlockedIn(verifAcceptLoop) == 0 && verifBlockedIn(verifReadLoop) == 0)
	verifReach("C12.acqfail.done", true)
}

// C13: a listen call that fails (address in use) returns its error and leaves the manager usable
func VH_C13_listen_failure() {
	delete(verifBoundPC, "127.0.0.1:9000")
	delete(verifBoundPC, "127.0.0.1:9001")
	lm := NewListenerManager()
	blocker, err := net.ListenTCP("tcp", &net.TCPAddr{IP: net.IPv4(127, 0, 0, 1), Port: 9302})
	verifAssert("C13.listen-failure.blocker", err == nil)
	VerifOccupyPacket("127.0.0.1:9000")
	done := make(chan int, 4)
	badStream := "127.0.0.1:9302" // busy
	if verifFlag("unresolvable") {
		badStream = "127.0.0.1:99999" // passes the configuration's validation, cannot be resolved
	}
	go func() {
		_, err := lm.ListenStream(badStream)
		verifAssert("C13.listen-failure.stream-error-returned", err != nil)
		// the next reload tries the same address again
		_, err = lm.ListenStream(badStream)
		verifAssert("C13.listen-failure.stream-error-returned-again", err != nil)
		done <- 1
	}()
	go func() {
		_, err := lm.ListenPacket("127.0.0.1:9000")
		verifAssert("C13.listen-failure.packet-error-returned", err != nil)
		done <- 1
	}()
	verifQuiesce()
	verifAssert("C13.listen-failure.calls-return", len(done) == 2)
	blocker.Close()
	VerifReleasePacket("127.0.0.1:9000")
	if len(done) == 2 {
		go func() {
			h, err := lm.ListenPacket("127.0.0.1:9001")
			if err == nil {
				h.Close()
			}
			s, err2 := lm.ListenStream("127.0.0.1:9302")
			if err2 == nil {
				s.Close()
			}
			verifAssert("C13.listen-failure.manager-usable", err == nil && err2 == nil)
			done <- 1
		}()
		verifQuiesce()
		verifAssert("C13.listen-failure.later-calls-return", len(done) == 3)
	}
	verifReach("C13.listen-failure.done", true)
}

// C13: the last handle is closed while an accepted connection has not been taken by anyone;
// the close returns, and so do later listen calls on the same and on other addresses
func VH_C13_close_with_pending_connection() {
	lm := NewListenerManager()
	h, err := lm.ListenStream("127.0.0.1:0")
	verifAssert("C13.pending.listen", err == nil)
	id := verifDialTCP(h.Addr())
	verifAssert("C13.pending.dial", id == 0)
	verifQuiesce()
	done := make(chan int, 4)
	go func() { h.Close(); done <- 1 }()
	verifQuiesce()
	verifAssert("C13.pending.close-returns", len(done) == 1)
	go func() {
		h2, err := lm.ListenStream("127.0.0.1:0")
		if err == nil {
			h2.Close()
		}
		done <- 2
	}()
	go func() {
		h3, err := lm.ListenStream("127.0.0.1:9303")
		if err == nil {
			h3.Close()
		}
		done <- 3
	}()
	verifQuiesce()
	verifAssert("C13.pending.later-listens-return", len(done) == 3)
	verifReach("C13.pending.done", true)
}

// C12: several datagrams in a row with two handles reading concurrently: each one is delivered
// exactly once and intact
func VH_C12_packet_burst() {
	for rep := 0; rep < verifRepeat(600); rep++ {
		verifC12Burst()
	}
	verifReach("C12.burst.done", true)
}

func verifC12Burst() {
	delete(verifBoundPC, "127.0.0.1:9000")
	ml := NewMultiPacketListener("127.0.0.1:9000", nil)
	h1, _ := ml.Acquire()
	h2, _ := ml.Acquire()
	pc := verifBoundPC["127.0.0.1:9000"]
	const n = 4
	got := make(chan byte, 2*n)
	var wg sync.WaitGroup
	for _, h := range []net.PacketConn{h1, h2} {
		h := h
		wg.Add(1)
		go func() {
			defer wg.Done()
			buf := make([]byte, 8)
			for {
				k, _, err := h.ReadFrom(buf)
				if err != nil {
					return
				}
				if k == 2 && buf[0] == buf[1] {
					got <- buf[0]
				} else {
					got <- 0xff // torn datagram
				}
			}
		}()
	}
	from := &net.UDPAddr{IP: net.IPv4(203, 0, 113, 5), Port: 4000}
	verifQuiesce() // both handles are waiting in ReadFrom
	go verifInjectAll(pc, n, from)
	// the shared reader gets as far ahead of the reading handles as it can
	verifRunOnly(verifReadLoop + "|verifInjectAll")
	verifQuiesce()
	verifAssert("C12.burst.all-delivered", len(got) == n)
	seen := make([]int, n+1)
	for len(got) > 0 {
		v := <-got
		if v >= 1 && int(v) <= n {
			seen[v]++
		} else {
			verifAssert("C12.burst.intact|C19.burst.intact", false)
		}
	}
	for i := 1; i <= n; i++ {
		verifAssert("C12.burst.exactly-once|C19.burst.exactly-once", seen[i] == 1)
	}
	h1.Close()
	h2.Close()
	wg.Wait()
}

// C11: a connection is handed to the old generation's accept call at the moment its handle is
// closed, while the new generation's handle on the same address is accepting: the connection
// is served by exactly one of them and not dropped
func VH_C11_handoff_during_close() {
	for rep := 0; rep < verifRepeat(2000); rep++ {
		ml := NewMultiStreamListener("127.0.0.1:0", nil)
		old, err1 := ml.Acquire()
		neu, err2 := ml.Acquire()
		verifAssert("C11.handoff.acquire", err1 == nil && err2 == nil)
		rOld := verifAcceptAsync(old)
		verifQuiesce()
		rNew := verifAcceptAsync(neu)
		verifQuiesce()
		id := verifDialTCP(old.Addr())
		verifAssert("C11.handoff.never-refused", id >= 0)
		// the shared accept loop takes the connection and hands it to the handle that waited
		// first (the old one); that handle is closed before its accept call has resumed
		verifRunOnly(verifAcceptLoop)
		old.Close()
		verifQuiesce()
		served := 0
		if len(rOld) == 1 {
			if a := <-rOld; a.err == nil {
				served++
			}
		}
		if len(rNew) == 1 {
			if a := <-rNew; a.err == nil {
				served++
			}
		}
		verifAssert("C11.handoff.handled-by-exactly-one-generation", served == 1)
		verifAssert("C11.handoff.not-dropped", id < 0 || !verifTCPPeerClosed(id))
		neu.Close()
		verifQuiesce()
	}
	verifReach("C11.handoff.done", true)
}

func verifInjectAll(pc *verifChanPC, n int, from net.Addr) {
	for i := 0; i < n; i++ {
		verifInject(pc, []byte{byte(i + 1), byte(i + 1)}, from) // no pause between datagrams
	}
}

// C13: closing a handle several times and using it afterwards always returns
func VH_C13_repeated_close() {
	lm := NewListenerManager()
	h, err := lm.ListenStream("127.0.0.1:0")
	verifAssert("C13.repeated-close.listen", err == nil)
	done := make(chan int, 8)
	go func() {
		h.Close()
		done <- 1
		h.Close()
		done <- 2
		h.Close()
		done <- 3
		_, err := h.AcceptStream()
		verifAssert("C13.repeated-close.accept-errclosed", errors.Is(err, net.ErrClosed))
		done <- 4
		h.Close()
		done <- 5
	}()
	verifQuiesce()
	verifAssert("C13.repeated-close.all-calls-return", len(done) == 5)
	verifReach("C13.repeated-close.done", true)
}

// C13: stream and packet listeners of one address are independent in the manager: releasing
// one kind leaves the other usable and shareable
func VH_C13_stream_and_packet_same_address() {
	delete(verifBoundPC, "127.0.0.1:9304")
	lm := NewListenerManager()
	s1, err := lm.ListenStream("127.0.0.1:9304")
	verifAssert("C13.both-kinds.stream", err == nil)
	p1, err := lm.ListenPacket("127.0.0.1:9304")
	verifAssert("C13.both-kinds.packet", err == nil)
	which := verifChoice("release", 2)
	if which == 0 {
		verifAssert("C13.both-kinds.packet-close", p1.Close() == nil)
		s2, err := lm.ListenStream("127.0.0.1:9304") // must share the socket that is still open
		verifAssert("C13.both-kinds.stream-still-shareable", err == nil)
		if err == nil {
			s2.Close()
		}
		s1.Close()
	} else {
		verifAssert("C13.both-kinds.stream-close", s1.Close() == nil)
		p2, err := lm.ListenPacket("127.0.0.1:9304")
		verifAssert("C13.both-kinds.packet-still-shareable", err == nil)
		if err == nil {
			p2.Close()
		}
		p1.Close()
	}
	verifQuiesce()
	// everything released: both kinds can be listened on again
	s3, err1 := lm.ListenStream("127.0.0.1:9304")
	p3, err2 := lm.ListenPacket("127.0.0.1:9304")
	verifAssert("C13.both-kinds.usable-afterwards", err1 == nil && err2 == nil)
	if err1 == nil {
		s3.Close()
	}
	if err2 == nil {
		p3.Close()
	}
	verifQuiesce()
	verifReach("C13.both-kinds.done", true)
}

// C12: a new handle is acquired at the very moment the last other handle closes: the new handle
// is open, so connections and datagrams keep being delivered to it
func VH_C12_acquire_vs_last_close() {
	verifSched(2)
	for rep := 0; rep < verifRepeat(2000); rep++ {
		closes := 0
		ml := NewMultiStreamListener("127.0.0.1:0", func() error { closes++; return nil })
		h1, err := ml.Acquire()
		verifAssert("C12.acquire-vs-close.first", err == nil)
		var h2 StreamListener
		var err2 error
		verifParStart(make(chan struct{}),
			func() { h1.Close() },
			func() { h2, err2 = ml.Acquire() },
		)
		verifSched(0) // the interleavings of interest are over
		verifAssert("C12.acquire-vs-close.acquired", err2 == nil && h2 != nil)
		if err2 != nil || h2 == nil {
			continue
		}
		r := verifAcceptAsync(h2)
		id := verifDialTCP(h2.Addr())
		verifAssert("C12.acquire-vs-close.not-refused", id >= 0)
		verifQuiesce()
		verifAssert("C12.acquire-vs-close.delivered-to-the-open-handle", len(r) == 1)
		if len(r) == 1 {
			a := <-r
			verifAssert("C12.acquire-vs-close.delivered-intact", a.err == nil && a.conn != nil)
			if a.conn != nil {
				a.conn.Close()
			}
		}
		h2.Close()
		verifQuiesce()
		verifAssert("C12.acquire-vs-close.nothing-running", verifBlockedIn(verifAcceptLoop) == 0)
	}
	verifReach("C12.acquire-vs-close.done", true)
}

func VH_C12_acquire_vs_last_close_packet() {
	verifSched(2)
	for rep := 0; rep < verifRepeat(2000); rep++ {
		delete(verifBoundPC, "127.0.0.1:9305")
		ml := NewMultiPacketListener("127.0.0.1:9305", func() error { return nil })
		h1, err := ml.Acquire()
		verifAssert("C12.acquire-vs-close-packet.first", err == nil)
		var h2 net.PacketConn
		var err2 error
		verifParStart(make(chan struct{}),
			func() { h1.Close() },
			func() { h2, err2 = ml.Acquire() },
		)
		verifSched(0)
		verifAssert("C12.acquire-vs-close-packet.acquired", err2 == nil && h2 != nil)
		if err2 != nil || h2 == nil {
			continue
		}
		verifPCMu.Lock()
		pc := verifBoundPC["127.0.0.1:9305"]
		verifPCMu.Unlock()
		verifAssert("C12.acquire-vs-close-packet.socket-open", pc != nil && pc.Closed() == 0)
		if pc != nil && pc.Closed() == 0 {
			r := verifReadAsync(h2)
			verifInject(pc, []byte{1, 2, 3}, &net.UDPAddr{IP: net.IPv4(203, 0, 113, 5), Port: 4000})
			verifQuiesce()
			verifAssert("C12.acquire-vs-close-packet.delivered-to-the-open-handle", len(r) == 1)
			if len(r) == 1 {
				p := <-r
				verifAssert("C12.acquire-vs-close-packet.delivered-intact", p.err == nil && p.n == 3)
			}
		}
		h2.Close()
		verifQuiesce()
		verifAssert("C12.acquire-vs-close-packet.nothing-running", verifBlockedIn(verifReadLoop) == 0)
	}
	verifReach("C12.acquire-vs-close-packet.done", true)
}

// C12: a closed handle never takes a connection, even when one is waiting to be handed out at
// that very moment; the connection goes to the handle that is open
func VH_C12_closed_handle_never_accepts() {
	for rep := 0; rep < verifRepeat(40); rep++ {
		ml := NewMultiStreamListener("127.0.0.1:0", nil)
		h1, err1 := ml.Acquire()
		h2, err2 := ml.Acquire()
		verifAssert("C12.closed-handle.acquire", err1 == nil && err2 == nil)
		verifAssert("C12.closed-handle.close-ok", h1.Close() == nil)
		id := verifDialTCP(h2.Addr())
		verifAssert("C12.closed-handle.dial", id >= 0)
		verifQuiesce() // the connection is now on offer to the handles
		for i := 0; i < 3; i++ {
			c, err := h1.AcceptStream()
			verifAssert("C12.closed-handle.later-accept-fails-the-same-way", c == nil && errors.Is(err, net.ErrClosed))
			// (a stopped configuration's serve loop that looks again gets nothing: C10)
			verifAssert("C10.closed-handle.stopped-generation-takes-no-new-connection", c == nil && err != nil)
			if c != nil {
				c.Close()
			}
		}
		r := verifAcceptAsync(h2)
		verifQuiesce()
		verifAssert("C12.closed-handle.delivered-to-the-open-handle", len(r) == 1)
		if len(r) == 1 {
			a := <-r
			verifAssert("C12.closed-handle.delivered-intact", a.err == nil && a.conn != nil)
			if a.conn != nil {
				a.conn.Close()
			}
		}
		h2.Close()
		verifQuiesce()
	}
	verifReach("C12.closed-handle.done", true)
}

// C12: a transient read error on the shared socket (reported to one reader) does not stop
// delivery: the next datagram still reaches a handle that keeps reading
func VH_C12_packet_transient_error() {
	delete(verifBoundPC, "127.0.0.1:9306")
	ml := NewMultiPacketListener("127.0.0.1:9306", nil)
	h1, err1 := ml.Acquire()
	h2, err2 := ml.Acquire()
	verifAssert("C12.transient.acquire", err1 == nil && err2 == nil)
	pc := verifBoundPC["127.0.0.1:9306"]
	r1 := verifReadAsync(h1)
	pc.in <- verifRead{err: verifTimeoutErr{}} // e.g. a read deadline that passed
	verifQuiesce()
	verifAssert("C12.transient.error-reported-to-a-reader", len(r1) == 1)
	r2 := verifReadAsync(h2)
	from := &net.UDPAddr{IP: net.IPv4(203, 0, 113, 5), Port: 4000}
	payload := verifBytes("dgram", 3)
	verifInject(pc, payload, from)
	verifQuiesce()
	verifAssert("C12.transient.next-datagram-delivered", len(r2) == 1)
	if len(r2) == 1 {
		p := <-r2
		verifAssert("C12.transient.delivered-intact", p.err == nil && p.n == 3 && verifBytesEq(p.data[:3], payload))
	}
	h1.Close()
	h2.Close()
	verifQuiesce()
	verifAssert("C12.transient.nothing-running", verifBlockedIn(verifReadLoop) == 0)
	verifReach("C12.transient.done", true)
}

// C13: the last handles of two different shared listeners (two addresses, or the stream and the
// packet listener of one address) are closed at the same time: both calls return
func VH_C13_concurrent_last_closes() {
	for rep := 0; rep < verifRepeat(300); rep++ {
		delete(verifBoundPC, "127.0.0.1:9307")
		lm := NewListenerManager()
		var a, b interface{ Close() error }
		s1, err := lm.ListenStream("127.0.0.1:9307")
		verifAssert("C13.two-closes.listen-a", err == nil)
		a = s1
		if verifFlag("second-is-packet-on-same-address") {
			p, err := lm.ListenPacket("127.0.0.1:9307")
			verifAssert("C13.two-closes.listen-b", err == nil)
			b = p
		} else {
			s2, err := lm.ListenStream("127.0.0.1:9308")
			verifAssert("C13.two-closes.listen-b", err == nil)
			b = s2
		}
		done := make(chan int, 2)
		verifSched(1)
		go func() { a.Close(); done <- 1 }()
		go func() { b.Close(); done <- 2 }()
		verifQuiesce()
		verifSched(0)
		verifAssert("C13.two-closes.all-calls-return", len(done) == 2)
		if len(done) != 2 {
			return
		}
		// the manager is usable afterwards
		s3, err := lm.ListenStream("127.0.0.1:9307")
		verifAssert("C13.two-closes.usable-afterwards", err == nil)
		if err == nil {
			s3.Close()
		}
		verifQuiesce()
	}
	verifReach("C13.two-closes.done", true)
}

// C13: many addresses listened on and then released one after the other (a configuration with
// many ports being stopped): every call returns
func VH_C13_many_addresses() {
	lm := NewListenerManager()
	const n = 70
	var hs []interface{ Close() error }
	for i := 0; i < n; i++ {
		addr := "127.0.0.1:" + verifItoa(9400+i)
		delete(verifBoundPC, addr)
		if i%2 == 0 {
			h, err := lm.ListenStream(addr)
			verifAssert("C13.many.listen", err == nil)
			hs = append(hs, h)
		} else {
			h, err := lm.ListenPacket(addr)
			verifAssert("C13.many.listen", err == nil)
			hs = append(hs, h)
		}
	}
	closed := make(chan int, n)
	go func() {
		for i, h := range hs {
			h.Close()
			closed <- i
		}
	}()
	verifQuiesce()
	verifAssert("C13.many.all-calls-return", len(closed) == n)
	verifReach("C13.many.done", true)
}

func verifItoa(n int) string {
	if n == 0 {
		return "0"
	}
	var b []byte
	for n > 0 {
		b = append([]byte{byte('0' + n%10)}, b...)
		n /= 10
	}
	return string(b)
}

// C12 / C11: datagrams that arrive back to back while no handle is reading (the handlers are busy)
// are each delivered once, intact, when the handles read again — also after the address has been
// acquired a second time (a reload that keeps it)
func VH_C12_packet_burst_unread() {
	delete(verifBoundPC, "127.0.0.1:9309")
	ml := NewMultiPacketListener("127.0.0.1:9309", nil)
	h1, err1 := ml.Acquire()
	h2, err2 := ml.Acquire() // the next generation's handle
	verifAssert("C12.unread-burst.acquire", err1 == nil && err2 == nil)
	pc := verifBoundPC["127.0.0.1:9309"]
	const n = 3
	from := &net.UDPAddr{IP: net.IPv4(203, 0, 113, 5), Port: 4000}
	go verifInjectAll(pc, n, from)
	verifQuiesce() // as many datagrams as the listener takes without a reader have been taken
	seen := make([]int, n+1)
	hs := []net.PacketConn{h1, h2}
	which := verifChoice("first-reader", 2)
	for i := 0; i < n; i++ {
		r := verifReadAsync(hs[(which+i)%2])
		verifQuiesce()
		verifAssert("C12.unread-burst.delivered", len(r) == 1)
		if len(r) != 1 {
			break
		}
		p := <-r
		ok := p.err == nil && p.n == 2 && p.data[0] == p.data[1] && p.data[0] >= 1 && int(p.data[0]) <= n
		verifAssert("C12.unread-burst.intact", ok)
		verifAssert("C11.unread-burst.handled-by-exactly-one-generation", ok)
		if ok {
			seen[p.data[0]]++
		}
	}
	for i := 1; i <= n; i++ {
		verifAssert("C12.unread-burst.exactly-once", seen[i] == 1)
		verifAssert("C11.unread-burst.each-datagram-handled-exactly-once", seen[i] == 1)
	}
	h1.Close()
	h2.Close()
	verifQuiesce()
	verifAssert("C12.unread-burst.nothing-running", verifBlockedIn(verifReadLoop) == 0 && verifBlockedIn("verifInjectAll") == 0)
	verifReach("C12.unread-burst.done", true)
}

// C19 / C12: two goroutines read from one handle at the same time: each call returns one whole
// datagram (its own length, sender and bytes), and each datagram is returned once
func VH_C19_two_readers_one_handle() {
	for rep := 0; rep < verifRepeat(400); rep++ {
		verifC19TwoReaders()
	}
}

func verifC19TwoReaders() {
	verifRaceDetect(true)
	verifSchedFirst(5) // which of the goroutines goes on first, at the first five points where one blocks
	delete(verifBoundPC, "127.0.0.1:9310")
	ml := NewMultiPacketListener("127.0.0.1:9310", nil)
	h, err := ml.Acquire()
	verifAssert("C19.two-readers.acquire", err == nil)
	pc := verifBoundPC["127.0.0.1:9310"]
	type res struct {
		n    int
		addr net.Addr
		err  error
		buf  []byte
	}
	out := make([]res, 2)
	var wg sync.WaitGroup
	for i := 0; i < 2; i++ {
		i := i
		wg.Add(1)
		go func() {
			defer wg.Done()
			buf := make([]byte, 8)
			n, a, err := h.ReadFrom(buf)
			out[i] = res{n, a, err, buf}
		}()
	}
	fromA := &net.UDPAddr{IP: net.IPv4(203, 0, 113, 5), Port: 4001}
	fromB := &net.UDPAddr{IP: net.IPv4(203, 0, 113, 6), Port: 4002}
	go func() {
		verifInject(pc, []byte{0xA1}, fromA)
		verifInject(pc, []byte{0xB1, 0xB2, 0xB3}, fromB)
	}()
	wg.Wait()
	verifSchedFirst(0)
	seenA, seenB := 0, 0
	for _, r := range out {
		isA := r.err == nil && r.n == 1 && r.buf[0] == 0xA1 && r.addr == net.Addr(fromA)
		isB := r.err == nil && r.n == 3 && r.buf[0] == 0xB1 && r.buf[1] == 0xB2 && r.buf[2] == 0xB3 && r.addr == net.Addr(fromB)
		verifAssert("C19.two-readers.each-call-returns-one-whole-datagram", isA || isB)
		verifAssert("C12.two-readers.datagram-intact", isA || isB)
		if isA {
			seenA++
		}
		if isB {
			seenB++
		}
	}
	verifAssert("C12.two-readers.each-datagram-once", seenA == 1 && seenB == 1)
	h.Close()
	verifQuiesce()
}

// C01: long key lists, the client's key at any position (in particular the last ones)
func VH_C01_long_list() {
	n := 16 + verifChoice("extra-keys", 4) // 16..19 keys
	l := list.New()
	for i := 0; i < n; i++ {
		e := MakeCipherEntry("id-"+verifItoa(i), verifKey(0, "long-"+verifItoa(i)), "long-"+verifItoa(i))
		l.PushBack(&e)
	}
	cl := NewCipherList()
	cl.Update(l)
	pos := n - 1 - verifChoice("from-the-end", 4)
	key := verifKey(0, "long-"+verifItoa(pos))
	buf := &verifBuf{}
	w := verifNewWriterWithSalt(buf, key, verifFixedSaltGen{1})
	w.Write([]byte{1, 93, 184, 216, 34, 0, 80, 'x'})
	conn := &verifStreamConn{name: "client", remote: &net.TCPAddr{IP: net.IPv4(203, 0, 113, 5), Port: 50000}}
	conn.reads = []verifSRead{{data: buf.b}}
	e, _, _, _, err := findAccessKey(conn, remoteIP(conn), cl, noopLogger())
	verifAssert("C01.long-list.authenticated-at-any-position", err == nil && e != nil && e.ID == "id-"+verifItoa(pos))
	verifReach("C01.long-list.last-of-19", n == 19 && pos == 18)
}

// C13: the first listens on an address the manager has not seen yet arrive at the same time
// (both kinds): every call returns and the manager is usable afterwards
func VH_C13_concurrent_first_listens() {
	for rep := 0; rep < verifRepeat(8000); rep++ {
		delete(verifBoundPC, "127.0.0.1:9311")
		lm := NewListenerManager()
		packet := verifFlag("packet")
		callers := 2
		if verifNative() {
			callers = 16 // more callers widen the window natively
		}
		done := make(chan interface{ Close() error }, callers)
		start := make(chan struct{})
		verifSched(1)
		for i := 0; i < callers; i++ {
			go func() {
				<-start // all callers are released together
				if packet {
					h, err := lm.ListenPacket("127.0.0.1:9311")
					verifAssert("C13.first-listens.both-succeed|C12.first-listens.share-one-socket|C19.first-listens.share-one-socket", err == nil)
					done <- h
				} else {
					h, err := lm.ListenStream("127.0.0.1:9311")
					verifAssert("C13.first-listens.both-succeed|C12.first-listens.share-one-socket|C19.first-listens.share-one-socket", err == nil)
					done <- h
				}
			}()
		}
		close(start)
		verifSettle(func() bool { return len(done) == callers })
		verifSched(0)
		verifAssert("C13.first-listens.all-calls-return", len(done) == callers)
		if len(done) != callers {
			return
		}
		// usable afterwards: another address, both kinds
		again := make(chan int, 1)
		go func() {
			s, err1 := lm.ListenStream("127.0.0.1:9312")
			delete(verifBoundPC, "127.0.0.1:9312")
			p, err2 := lm.ListenPacket("127.0.0.1:9312")
			if err1 == nil {
				s.Close()
			}
			if err2 == nil {
				p.Close()
			}
			again <- 1
		}()
		verifSettle(func() bool { return len(again) == 1 })
		verifAssert("C13.first-listens.manager-usable-afterwards", len(again) == 1)
		for len(done) > 0 {
			if h := <-done; h != nil {
				h.Close()
			}
		}
		if !verifNative() {
			verifQuiesce()
		}
	}
	verifReach("C13.first-listens.done", true)
}

// verifSettle waits until cond holds: under gosmt by letting everything else run until it blocks,
// natively by polling for up to two seconds (much cheaper than verifQuiesce in repeated scenarios)
func verifSettle(cond func() bool) {
	if !verifNative() {
		verifQuiesce()
		return
	}
	for i := 0; i < 20000 && !cond(); i++ {
		time.Sleep(100 * time.Microsecond)
	}
}

// C12: a handle is closed at the moment a datagram is being handed to its pending read: the
// datagram is not lost (that read returns it, or another handle that keeps reading gets it)
func VH_C12_close_while_datagram_in_hand() {
	for rep := 0; rep < verifRepeat(6000); rep++ {
		verifSched(2)
		delete(verifBoundPC, "127.0.0.1:9313")
		ml := NewMultiPacketListener("127.0.0.1:9313", nil)
		h1, err1 := ml.Acquire()
		h2, err2 := ml.Acquire()
		verifAssert("C12.in-hand.acquire", err1 == nil && err2 == nil)
		pc := verifBoundPC["127.0.0.1:9313"]
		r1 := verifReadAsync(h1)
		verifPause() // the read is pending now
		if verifNative() {
			// natively: the close lands a varying, very short time after the socket handed the
			// datagram to the shared reader (that is when the reader turns to the pending read)
			verifInject(pc, []byte{7, 7, 7}, &net.UDPAddr{IP: net.IPv4(203, 0, 113, 5), Port: 4000})
			for spin := 0; spin < (rep%64)*8; spin++ {
				verifSpin++
			}
			h1.Close()
		} else {
			go verifInject(pc, []byte{7, 7, 7}, &net.UDPAddr{IP: net.IPv4(203, 0, 113, 5), Port: 4000})
			h1.Close()
		}
		verifSettle(func() bool { return len(r1) == 1 })
		verifSched(0)
		verifAssert("C12.in-hand.pending-read-returned", len(r1) == 1)
		got := 0
		if len(r1) == 1 {
			p := <-r1
			if p.err == nil {
				verifAssert("C12.in-hand.intact", p.n == 3 && p.data[0] == 7)
				got++
			} else {
				verifAssert("C12.in-hand.closed-error", errors.Is(p.err, net.ErrClosed))
			}
		}
		// whatever the closed handle did not return goes to the handle that keeps reading
		if got == 0 {
			r2 := verifReadAsync(h2)
			verifSettle(func() bool { return len(r2) == 1 })
			if len(r2) == 1 {
				if p := <-r2; p.err == nil && p.n == 3 {
					got++
				}
			}
			verifAssert("C12.in-hand.never-lost|C18.in-hand.the-other-handle-is-still-served", got == 1)
			h2.Close()
			if got != 1 {
				return // shown once is enough
			}
		} else {
			h2.Close()
		}
		if !verifNative() {
			verifQuiesce()
		}
	}
	verifReach("C12.in-hand.done", true)
}

var verifSpin int

// verifPause lets the goroutines just started get going: under gosmt until they block, natively
// for a moment
func verifPause() {
	if !verifNative() {
		verifQuiesce()
		return
	}
	time.Sleep(200 * time.Microsecond)
}

// C13: addresses as an operator may spell them (IPv6 written out, upper-case hex, an IPv4-mapped
// form, a host name, no host at all): every listen and close call returns, a second listen on the
// same spelling shares the first one's listener, and the manager is usable afterwards
func VH_C13_address_spellings() {
	spellings := []string{"127.0.0.1:9500", "[::1]:9501", "[0:0:0:0:0:0:0:1]:9502", "[::FFFF:7F00:1]:9503",
		"[::ffff:127.0.0.1]:9504", ":9506", "[0000:0000:0000:0000:0000:0000:0000:0001]:9507", "[::FFFF:127.0.0.1]:9508"}
	addr := spellings[verifChoice("spelling", len(spellings))]
	packet := verifFlag("packet")
	lm := NewListenerManager()
	done := make(chan int, 8)
	go func() {
		var hs []interface{ Close() error }
		for i := 0; i < 2; i++ {
			if packet {
				delete(verifBoundPC, addr)
				if h, err := lm.ListenPacket(addr); err == nil {
					hs = append(hs, h)
				}
			} else {
				if h, err := lm.ListenStream(addr); err == nil {
					hs = append(hs, h)
				}
			}
			done <- 1
		}
		verifAssert("C13.spellings.both-listens-succeed", len(hs) == 2)
		for _, h := range hs {
			h.Close()
			done <- 2
		}
		// the manager still serves other addresses
		h, err := lm.ListenStream("127.0.0.1:9599")
		verifAssert("C13.spellings.manager-usable-afterwards", err == nil)
		if err == nil {
			h.Close()
		}
		done <- 3
	}()
	verifSettle(func() bool { return len(done) == 5 })
	verifAssert("C13.spellings.all-calls-return", len(done) == 5)
	verifReach("C13.spellings.done", true)
}

// C12: a connection is waiting (accepted from the kernel, no handle is accepting yet) when one of
// two handles is closed: it is not lost, the handle that stays open gets it
func VH_C12_pending_connection_survives_another_handles_close() {
	ml := NewMultiStreamListener("127.0.0.1:9321", nil)
	h1, err1 := ml.Acquire()
	h2, err2 := ml.Acquire()
	verifAssert("C12.pending.acquire", err1 == nil && err2 == nil)
	id := verifDialTCP(h1.Addr())
	verifAssert("C12.pending.dial", id >= 0)
	for i := 0; i < verifRepeat(40); i++ {
		verifPause() // (natively: give the shared accept loop time to take the connection, also on a loaded machine)
	}
	verifQuiesce() // the shared accept loop holds the connection now
	verifAssert("C12.pending.close-ok", h1.Close() == nil)
	r := verifAcceptAsync(h2)
	verifSettle(func() bool { return len(r) == 1 })
	verifAssert("C12.pending.delivered-to-the-open-handle", len(r) == 1)
	if len(r) == 1 {
		a := <-r
		verifAssert("C12.pending.delivered-intact", a.err == nil && a.conn != nil && verifTCPConnID(a.conn) == id)
	}
	verifAssert("C12.pending.not-dropped", !verifTCPPeerClosed(id))
	h2.Close()
	verifQuiesce()
	verifReach("C12.pending.done", true)
}

// C13 / C12: an address is listened on, fully released and listened on again, several times: each
// generation accepts connections like the first
func VH_C13_stream_listen_again() {
	lm := NewListenerManager()
	rounds := 3
	for r := 0; r < rounds; r++ {
		ln, err := lm.ListenStream("127.0.0.1:9322")
		verifAssert("C13.again.listen", err == nil)
		if err != nil {
			return
		}
		acc := verifAcceptAsync(ln)
		id := verifDialTCP(ln.Addr())
		verifAssert("C13.again.not-refused|C12.again.not-refused", id >= 0)
		verifSettle(func() bool { return len(acc) == 1 })
		verifAssert("C13.again.manager-usable-afterwards|C12.again.delivered", len(acc) == 1)
		if len(acc) == 1 {
			a := <-acc
			verifAssert("C13.again.accepted|C12.again.accepted", a.err == nil && a.conn != nil)
			if a.conn != nil {
				a.conn.Close()
			}
		}
		verifAssert("C13.again.close", ln.Close() == nil)
		verifQuiesce()
		verifAssert("C12.again.nothing-running-after-release", verifBlockedIn(verifAcceptLoop) == 0)
	}
	verifReach("C13.again.done", true)
}

// C12 / C13: an address is fully released and listened on again AT ONCE (a reload that drops a
// port and a next one that brings it back), whatever the manager still had to do for the release;
// afterwards a second handle on the address shares the socket like any other: no "address in
// use", and a connection is delivered to exactly one of the two handles
func VH_C12_listen_again_then_share() {
	for rep := 0; rep < verifRepeat(60); rep++ {
		if !verifBody_C12_listen_again_then_share() {
			return
		}
	}
}

func verifBody_C12_listen_again_then_share() bool {
	lm := NewListenerManager()
	const addr = "127.0.0.1:9323"
	if verifFlag("packet") {
		p1, err := lm.ListenPacket(addr)
		verifAssert("C12.relisten.packet.listen", err == nil)
		if err != nil {
			return false
		}
		p1.Close()
		p2, err := lm.ListenPacket(addr) // at once: nothing else has run since the release
		verifAssert("C12.relisten.packet.listen-again|C13.relisten.packet.listen-again", err == nil)
		if err != nil {
			return false
		}
		verifQuiesce()
		if verifNative() {
			verifPause()
		}
		p3, err := lm.ListenPacket(addr)
		ok := err == nil
		verifAssert("C12.relisten.packet.second-handle-shares-the-socket|C13.relisten.packet.second-handle-shares-the-socket", ok)
		if p3 != nil {
			p3.Close()
		}
		p2.Close()
		verifQuiesce()
		verifReach("C12.relisten.packet.done", true)
		return ok
	}
	l1, err := lm.ListenStream(addr)
	verifAssert("C12.relisten.listen", err == nil)
	if err != nil {
		return false
	}
	l1.Close()
	l2, err := lm.ListenStream(addr) // at once: nothing else has run since the release
	verifAssert("C12.relisten.listen-again|C13.relisten.listen-again", err == nil)
	if err != nil {
		return false
	}
	verifQuiesce()
	if verifNative() {
		verifPause()
	}
	l3, err := lm.ListenStream(addr)
	ok := err == nil
	verifAssert("C12.relisten.second-handle-shares-the-socket|C13.relisten.second-handle-shares-the-socket", ok)
	if ok {
		a2, a3 := verifAcceptAsync(l2), verifAcceptAsync(l3)
		id := verifDialTCP(l2.Addr())
		verifAssert("C12.relisten.not-refused", id >= 0)
		verifSettle(func() bool { return len(a2)+len(a3) >= 1 })
		verifQuiesce()
		once := len(a2)+len(a3) == 1
		verifAssert("C12.relisten.delivered-exactly-once", once)
		ok = ok && once
		l3.Close()
	}
	l2.Close()
	verifQuiesce()
	verifAssert("C12.relisten.nothing-running-after-release", verifBlockedIn(verifAcceptLoop) == 0)
	verifReach("C12.relisten.done", true)
	return ok
}

// C13: a handle is closed while another goroutine is just entering AcceptStream on it (a serving
// loop coming round for its next connection as the listener is stopped): both calls return, and
// the accept call returns an error or a connection, never hangs
func VH_C13_accept_starts_during_close() {
	for rep := 0; rep < verifRepeat(300); rep++ {
		lm := NewListenerManager()
		ln, err := lm.ListenStream("127.0.0.1:9324")
		verifAssert("C13.accept-during-close.listen", err == nil)
		if err != nil {
			return
		}
		other := verifFlag("another-handle-stays-open")
		var keep StreamListener
		if other {
			keep, err = lm.ListenStream("127.0.0.1:9324")
			verifAssert("C13.accept-during-close.listen-other", err == nil)
		}
		done := make(chan int, 2)
		verifSched(1)
		go func() {
			c, err := ln.AcceptStream()
			if err == nil && c != nil {
				c.Close()
			}
			done <- 1
		}()
		go func() { ln.Close(); done <- 2 }()
		verifQuiesce()
		verifSched(0)
		ok := len(done) == 2
		verifAssert("C13.accept-during-close.all-calls-return", ok)
		if !ok {
			return
		}
		if keep != nil {
			keep.Close()
		}
		verifQuiesce()
		verifAssert("C12.accept-during-close.nothing-running-after-release", verifBlockedIn(verifAcceptLoop) == 0)
	}
	verifReach("C13.accept-during-close.done", true)
}

package service

// C14 — association deadlines: lower bounds per write, monotone except fast close, fast close
// exactly for "one DNS query, first reply from a DNS server"; teardown on timeout only.

import (
	"net"
	"sync"
	"time"
)

// (the obligations here are on the read deadline this version arms on the outbound socket at every
// write: labelled C14.impl.*, they are hints only — an implementation may keep the promised
// lifetime with other means, see VH_C14_lifetime for the promise itself)
func verifC14Ops(k int) {
	tmo := time.Duration(verifI64("timeout"))
	verifAssume(tmo >= time.Second && tmo <= 24*time.Hour)
	pc := &verifPacketConn{}
	c := &natconn{PacketConn: pc, defaultTimeout: tmo}
	writes, reads := 0, 0
	firstWriteDNS := false
	fastClosed := false
	var lastD time.Time
	haveD := false
	for i := 0; i < k; i++ {
		port := int(verifU16("port"))
		addr := &net.UDPAddr{IP: net.IPv4(8, 8, 8, 8), Port: port}
		dns := port == 53
		nd := len(pc.deadlines)
		tBefore := time.Now()
		// the association is created by a client datagram: the first operation is a write
		if verifAny(i == 0, verifBool("is-write")) {
			c.onWrite(addr)
			tAfter := time.Now()
			writes++
			if writes == 1 {
				firstWriteDNS = dns
			}
			want := tmo
			if dns {
				want = 17 * time.Second
			}
			// the deadline in force is at least (time of this write) + promised timeout
			verifAssert("C14.impl.write.some-deadline-set", len(pc.deadlines) > 0)
			cur := pc.deadlines[len(pc.deadlines)-1]
			if !fastClosed {
				verifAssert("C14.impl.write.deadline-lower-bound", !cur.Before(tBefore.Add(want)))
				// "torn down within bounded time": read here as no later than twice the promised
				// life (an implementation may round or pad the deadline; it may not park it far away)
				verifAssert("C14.impl.write.deadline-upper-bound", !cur.After(tAfter.Add(2*verifMaxDur(tmo, 17*time.Second))))
			}
			if len(pc.deadlines) > nd {
				if haveD && !fastClosed {
					verifAssert("C14.impl.write.never-earlier", !cur.Before(lastD))
				}
			}
			verifReach("C14.write.kept-longer-deadline", len(pc.deadlines) == nd && i > 0)
		} else {
			c.onRead(addr)
			tAfter := time.Now()
			reads++
			fired := len(pc.deadlines) > nd
			shouldFire := verifAll(reads == 1, writes == 1, firstWriteDNS, dns)
			verifAssert("C14.impl.read.fast-close-only-when-allowed", verifImplies(fired, shouldFire))
			verifAssert("C14.impl.read.fast-close-when-due", verifImplies(shouldFire, fired))
			if fired {
				cur := pc.deadlines[len(pc.deadlines)-1]
				verifAssert("C14.impl.read.fast-close-is-now", !cur.Before(tBefore) && !cur.After(tAfter))
				fastClosed = true
				verifReach("C14.read.fast-close", true)
			}
		}
		if len(pc.deadlines) > 0 {
			lastD = pc.deadlines[len(pc.deadlines)-1]
			haveD = true
		}
	}
}

func verifMaxDur(a, b time.Duration) time.Duration {
	if a > b {
		return a
	}
	return b
}

func VH_C14_ops() { verifC14Ops(3) }

func VH_C14_ops_T() { verifC14Ops(5) }

// teardown: the reader goroutine leaves on a timeout, reports removal once, removes the entry
// and closes the outbound socket; other read errors do not tear the association down.
func VH_C14_teardown() {
	um := &verifUDPMetrics{}
	nm := newNATmap(5*time.Minute, um, noopLogger())
	clientAddr := &net.UDPAddr{IP: net.IPv4(198, 51, 100, 7), Port: int(verifU16("cport"))}
	client := &verifPacketConn{name: "client"}
	target := &verifPacketConn{name: "target", endErr: verifTimeoutErr{}}
	src := &net.UDPAddr{IP: net.IPv4(93, 184, 216, 34), Port: 4000}
	nOther := verifChoice("other-errors", 3)
	for i := 0; i < nOther; i++ {
		if verifBool("fault-or-data") {
			target.reads = append(target.reads, verifRead{err: errVerifFault})
		} else {
			target.reads = append(target.reads, verifRead{n: 3, addr: src})
		}
	}
	key := verifKey(0, "s1")
	entry := nm.Add(clientAddr, client, key, target, "id-1")
	verifAssert("C14.teardown.entry-registered", nm.Get(clientAddr.String()) == entry)
	verifQuiesce()
	cm := um.entries[0]
	verifAssert("C14.teardown.removed-once", cm.removed == 1)
	verifAssert("C14.teardown.socket-closed-once", target.closed == 1)
	verifAssert("C14.teardown.entry-gone", nm.Get(clientAddr.String()) == nil)
	verifAssert("C14.teardown.all-reads-consumed", target.readPos == nOther)
	verifAssert("C14.teardown.no-read-after-close", target.readsAfterClose == 0)
	verifAssert("C14.teardown.reports", len(cm.fromTarget) == nOther)
	verifAssert("C14.teardown.goroutine-gone", verifBlockedIn("timedCopy") == 0)
	verifReach("C14.teardown.with-errors", nOther == 2)
}

// shutdown: natmap.Close expires every live association now.
func VH_C14_shutdown() {
	um := &verifUDPMetrics{}
	nm := newNATmap(5*time.Minute, um, noopLogger())
	n := 1 + verifChoice("entries", 3)
	socks := make([]*verifPacketConn, n)
	key := verifKey(0, "s1")
	for i := 0; i < n; i++ {
		socks[i] = &verifPacketConn{}
		nm.set((&net.UDPAddr{IP: net.IPv4(198, 51, 100, byte(i+1)), Port: 1000 + i}).String(), socks[i], key, &verifUDPConnMetrics{})
	}
	t0 := time.Now()
	err := nm.Close()
	t1 := time.Now()
	verifAssert("C14.shutdown.no-error", err == nil)
	for i := 0; i < n; i++ {
		verifAssert("C14.impl.shutdown.deadline-set", len(socks[i].deadlines) == 1)
		d := socks[i].deadlines[0]
		verifAssert("C14.impl.shutdown.deadline-now", !d.Before(t0) && !d.After(t1))
	}
	verifReach("C14.shutdown.three", n == 3)
}

// an association whose writes to the target fail still gets a read deadline, so that it is
// reclaimed like any other
func VH_C14_write_failure() {
	verifResetNet()
	cl, specs, _ := verifMakeList(1, 1, false)
	key := verifKey(specs[0].cipher, verifSecrets[specs[0].secret])
	um := &verifUDPMetrics{}
	h := NewPacketHandler(defaultNatTimeout, cl, um, nil)
	client := &verifPacketConn{name: "client"}
	verifReplyScript = func(i int, pc *verifPacketConn) { pc.writeErr = errVerifFault }
	n := 1 + verifChoice("datagrams", 2)
	for i := 0; i < n; i++ {
		client.reads = append(client.reads, verifRead{data: verifPack(key, verifSocksV4([]byte{93, 184, 216, 34}, 443, []byte("x"))), addr: verifClientAddrs[0]})
	}
	h.Handle(client)
	verifQuiesce()
	verifAssert("C14.write-failure.association-created", len(verifTargets) == 1 && len(um.entries) == 1)
	if len(verifTargets) == 1 {
		// one deadline from the failed write itself, one more when the listener shut down
		verifAssert("C14.impl.write-failure.deadline-armed", len(verifTargets[0].deadlines) >= 2)
		verifAssert("C14.write-failure.reported", len(um.entries[0].fromClient) == n && um.entries[0].fromClient[0].status == "ERR_WRITE")
	}
	verifReach("C14.write-failure.done", true)
}

// the listener shuts down at the very moment one association is being torn down (its socket
// has just been closed): all the other associations are still expired promptly
func VH_C14_shutdown_during_teardown() {
	for rep := 0; rep < verifRepeat(12); rep++ {
		verifC14ShutdownDuringTeardown()
	}
}

func verifC14ShutdownDuringTeardown() {
	verifResetNet()
	verifTargetBlocking = true
	verifChanTargets = nil
	defer func() { verifTargetBlocking = false }()
	um := &verifUDPMetrics{}
	nm := newNATmap(5*time.Minute, um, noopLogger())
	key := verifKey(0, "s1")
	client := &verifPacketConn{name: "client"}
	const n = 3
	socks := make([]*verifChanPC, n)
	for i := 0; i < n; i++ {
		pc, _ := verifListenPacket("udp", "")
		socks[i] = pc.(*verifChanPC)
		nm.Add(verifClientAddrs[i], client, key, socks[i], "id-0")
	}
	victim := verifChoice("victim", n)
	var once sync.Once
	socks[victim].afterClose = func() {
		once.Do(func() { nm.Close() }) // the packet listener is shut down right now
	}
	verifQuiesce()
	socks[victim].Expire() // its deadline passes: teardown starts
	verifQuiesce()
	for i := 0; i < n; i++ {
		verifAssert("C14.teardown-shutdown.all-expired", socks[i].Closed() == 1)
		verifAssert("C14.teardown-shutdown.removed-once", um.entries[i].removed == 1)
	}
	verifAssert("C14.teardown-shutdown.no-goroutine-left", verifBlockedIn("timedCopy") == 0)
	verifReach("C14.teardown-shutdown.done", true)
}

// a DNS query, then a second datagram racing with the first DNS answer: whatever the order, the
// association stays alive for its promised time after the second datagram
func VH_C14_second_write_vs_answer() {
	verifSched(1)
	for rep := 0; rep < verifRepeat(1500); rep++ {
		pc := &verifPacketConn{yieldOnDeadline: true}
		c := &natconn{PacketConn: pc, defaultTimeout: time.Minute}
		dns := &net.UDPAddr{IP: net.IPv4(8, 8, 8, 8), Port: 53}
		second := net.Addr(dns)
		if verifFlag("second-non-dns") {
			second = &net.UDPAddr{IP: net.IPv4(93, 184, 216, 34), Port: 443}
		}
		c.onWrite(dns)
		d0 := pc.deadlines[0]
		t2 := time.Now()
		verifAssume(t2.Add(17 * time.Second).After(d0)) // the clock has advanced since the first datagram
		verifParStart(make(chan struct{}),
			func() { c.onWrite(second) },
			func() { c.onRead(dns) },
		)
		pc.mu.Lock()
		last := pc.deadlines[len(pc.deadlines)-1]
		pc.mu.Unlock()
		// (C19: both sequential orders of the two calls leave the association alive, so must every interleaving)
		verifAssert("C14.impl.second-write.keeps-association-alive|C19.impl.second-write.result-equals-a-sequential-order", !last.Before(t2.Add(17*time.Second)))
	}
	verifReach("C14.second-write.done", true)
}

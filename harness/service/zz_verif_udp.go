package service

// C03 / C04 / C05(UDP) / C16 — the UDP handler: authentication and attribution of datagrams,
// one outbound socket per client address, destination policy on every datagram, metrics.

import (
	"container/list"
	"net"
	"sync"

	"github.com/Jigsaw-Code/outline-sdk/transport/shadowsocks"
	"github.com/shadowsocks/go-shadowsocks2/socks"
)

// model of net.ListenPacket("udp", "") (see gosmt redirects): a fresh fake socket per call
var (
	verifTargets     []*verifPacketConn
	verifListenFault bool
	verifListenCalls int
	verifReplyScript func(i int, pc *verifPacketConn)
	verifListenMu    sync.Mutex
	// runs once, when the next outbound socket is about to be opened
	verifOnTargetListen func()
)

func verifListenPacket(network, address string) (net.PacketConn, error) {
	if address != "" {
		return verifListenSharedPacket(address)
	}
	if verifOnTargetListen != nil {
		hook := verifOnTargetListen
		verifOnTargetListen = nil
		hook() // something else happens while this association is being set up
	}
	verifListenMu.Lock()
	defer verifListenMu.Unlock()
	verifListenCalls++
	if verifListenFault {
		return nil, errVerifFault
	}
	if verifTargetDeadlines {
		pc := newVerifDeadlinePC(&net.UDPAddr{IP: net.IPv4(192, 0, 2, 1), Port: 22000 + len(verifDeadlineTargets)})
		verifDeadlineTargets = append(verifDeadlineTargets, pc)
		return pc, nil
	}
	if verifTargetBlocking {
		pc := &verifChanPC{in: make(chan verifRead), closedCh: make(chan struct{}), expireCh: make(chan struct{}), local: &net.UDPAddr{IP: net.IPv4(192, 0, 2, 1), Port: 21000 + len(verifChanTargets)}}
		verifChanTargets = append(verifChanTargets, pc)
		return pc, nil
	}
	pc := &verifPacketConn{name: "target", endErr: verifTimeoutErr{}, blocksWithoutDeadline: true, local: &net.UDPAddr{IP: net.IPv4(192, 0, 2, 1), Port: 20000 + len(verifTargets)}}
	if verifReplyScript != nil {
		verifReplyScript(len(verifTargets), pc)
	}
	verifTargets = append(verifTargets, pc)
	return pc, nil
}

func verifResetNet() {
	verifTargets = nil
	verifListenFault = false
	verifListenCalls = 0
	verifReplyScript = nil
}

func verifPack(key *shadowsocks.EncryptionKey, plaintext []byte) []byte {
	buf := make([]byte, key.SaltSize()+len(plaintext)+16)
	out, err := shadowsocks.Pack(buf, plaintext, key)
	if err != nil {
		panic(err)
	}
	return out
}

func verifSocksV4(ip []byte, port int, payload []byte) []byte {
	p := []byte{1, ip[0], ip[1], ip[2], ip[3], byte(port >> 8), byte(port)}
	return append(p, payload...)
}

var verifClientAddrs = []*net.UDPAddr{
	{IP: net.IPv4(198, 51, 100, 7), Port: 4001},
	{IP: net.IPv4(198, 51, 100, 7), Port: 4002},
	{IP: net.IPv4(198, 51, 100, 8), Port: 4001},
}

type verifDgram struct {
	kind    int // 0 valid, 1 attacker bytes, 2 truncated valid
	key     verifKeySpec
	from    int
	dst     []byte
	dport   int
	payload []byte
	wire    []byte
}

func verifMustRejectV4(b []byte) bool {
	v := uint32(b[0])<<24 | uint32(b[1])<<16 | uint32(b[2])<<8 | uint32(b[3])
	return verifAny(v == 0, v>>24 == 127, v>>16 == 0xA9FE, v>>28 == 0xE, v == 0xFFFFFFFF,
		v>>24 == 10, v>>20 == 0xAC1, v>>16 == 0xC0A8, v>>22 == 0x191)
}

// symDst: destination addresses are symbolic (C05 clause) instead of {public, private} samples
func verifUDP(k int, nKeys int, nAddrs int, symDst bool) {
	verifResetNet()
	n := 1 + verifChoice("nkeys", nKeys)
	// key list: distinct secrets; first cipher any, later ones from two salt sizes
	l := list.New()
	specs := make([]verifKeySpec, n)
	entries := make([]*CipherEntry, n)
	for i := 0; i < n; i++ {
		c := 0
		if !symDst && !verifUDPOneCipher {
			c = verifChoice("cipher", 4)
		}
		if i > 0 {
			c = []int{0, 3}[verifChoice("cipher-more", 2)]
		}
		specs[i] = verifKeySpec{c, i}
		e := MakeCipherEntry("id-"+string(rune('0'+i)), verifKey(c, verifSecrets[i]), verifSecrets[i])
		entries[i] = &e
		l.PushBack(&e)
	}
	cl := NewCipherList()
	cl.Update(l)
	um := &verifUDPMetrics{}
	h := NewPacketHandler(defaultNatTimeout, cl, um, nil)
	client := &verifPacketConn{name: "client"}
	dgrams := make([]verifDgram, k)
	for i := range dgrams {
		d := &dgrams[i]
		if symDst {
			d.kind = 0
			d.key = specs[0]
			d.dst = verifBytes("dst", 4)
		} else {
			d.kind = verifChoice("kind", 2+verifIteInt(i > 0, 1, 0)) // truncation only on later datagrams
			// the datagram's key: one of the configured ones, or an unconfigured one
			if ki := verifChoice("dkey", n+1); ki < n {
				d.key = specs[ki]
			} else {
				d.key = verifKeySpec{0, 2}
			}
			d.from = 0
			if i > 0 {
				d.from = verifChoice("from", nAddrs)
			}
			d.dst = [][]byte{{93, 184, 216, 34}, {10, 0, 0, 1}, {100, 64, 0, 1}}[verifChoice("dst", 2+verifTier())]
		}
		d.dport = 443
		if i == 0 && !symDst {
			d.dport = []int{53, 443}[verifChoice("dport", 2)]
		}
		d.payload = verifBytes("payload", 3*((i+1)%2))
		key := verifKey(d.key.cipher, verifSecrets[d.key.secret])
		switch d.kind {
		case 0:
			d.wire = verifPack(key, verifSocksV4(d.dst, d.dport, d.payload))
		case 1:
			d.wire = verifBytes("junk", 61)
		case 2:
			w := verifPack(key, verifSocksV4(d.dst, d.dport, d.payload))
			d.wire = w[:len(w)-1]
		}
		client.reads = append(client.reads, verifRead{data: d.wire, addr: verifClientAddrs[d.from]})
	}
	h.Handle(client)
	verifQuiesce()

	// replay the specification over the datagrams
	type assoc struct {
		key    verifKeySpec
		sock   int
		writes int
	}
	assocs := map[int]*assoc{}
	nSock := 0
	nRep := map[int]int{}
	for i := range dgrams {
		d := &dgrams[i]
		configured := -1
		for j := range specs {
			if specs[j] == d.key && configured < 0 {
				configured = j
			}
		}
		allowed := !verifMustRejectV4(d.dst)
		a := assocs[d.from]
		if a == nil {
			if d.kind == 0 && configured >= 0 && allowed {
				// creates the association, on a socket of its own
				a = &assoc{key: d.key, sock: nSock}
				assocs[d.from] = a
				nSock++
				verifAssert("C04.socket-created", len(verifTargets) >= nSock)
				verifAssert("C16.entry-added", len(um.entries) >= nSock)
				if len(um.entries) >= nSock {
					cm := um.entries[a.sock]
					verifAssert("C16.entry-client", cm.clientAddr == net.Addr(verifClientAddrs[d.from]))
					// attributed to an id configured with exactly that cipher and secret
					ok := false
					for j := range specs {
						if specs[j] == d.key && entries[j].ID == cm.accessKey {
							ok = true
						}
					}
					verifAssert("C03.attributed-to-matching-key", ok)
				}
				verifReach("C03.association-created", true)
			} else {
				verifReach("C03.no-association", true)
				continue
			}
		} else if !(d.kind == 0 && d.key == a.key && allowed) {
			// on a known address only the association's key is accepted, and only allowed targets
			if len(um.entries) > a.sock {
				cm := um.entries[a.sock]
				verifAssert("C16.rejected-on-association-reported", len(cm.fromClient) > nRep[a.sock])
				if len(cm.fromClient) > nRep[a.sock] {
					r := cm.fromClient[nRep[a.sock]]
					verifAssert("C16.rejected-status", r.status != "OK" && r.a == int64(len(d.wire)) && r.b == 0)
				}
				nRep[a.sock]++
			}
			verifReach("C03.rejected-on-association", true)
			continue
		}
		// forwarded: next write of that socket carries exactly the payload to the header address
		if len(verifTargets) > a.sock {
			t := verifTargets[a.sock]
			verifAssert("C03.forwarded", len(t.writes) > a.writes)
			if len(t.writes) > a.writes {
				w := t.writes[a.writes]
				verifAssert("C03.payload-intact", verifBytesEq(w.data, d.payload))
				ua, isUDP := w.addr.(*net.UDPAddr)
				verifAssert("C03.destination", isUDP && ua.Port == d.dport && verifBytesEq(ua.IP.To4(), d.dst))
				verifAssert("C05.udp.destination-allowed", isUDP && !verifMustReject(ua.IP))
			}
			a.writes++
			if len(um.entries) > a.sock {
				cm := um.entries[a.sock]
				verifAssert("C16.forwarded-reported", len(cm.fromClient) > nRep[a.sock])
				if len(cm.fromClient) > nRep[a.sock] {
					r := cm.fromClient[nRep[a.sock]]
					verifAssert("C16.forwarded-report", r.status == "OK" && r.a == int64(len(d.wire)) && r.b == int64(len(d.payload)))
				}
				nRep[a.sock]++
			}
		}
	}
	// nothing else happened: sockets, entries, writes and reports are exactly those accounted for
	verifAssert("C04.one-socket-per-client-address", len(verifTargets) == nSock && verifListenCalls == nSock)
	verifAssert("C16.entries-exact", len(um.entries) == nSock)
	for _, a := range assocs {
		if len(verifTargets) > a.sock {
			verifAssert("C03.no-extra-writes", len(verifTargets[a.sock].writes) == a.writes)
			verifAssert("C16.no-extra-reports", len(um.entries[a.sock].fromClient) == nRep[a.sock])
			// after the listener closed and the association expired everything is reclaimed
			verifAssert("C14.socket-closed", verifTargets[a.sock].closed == 1)
			verifAssert("C16.removed-once", um.entries[a.sock].removed == 1)
		}
	}
	for _, t := range verifTargets {
		verifAssert("C18.udp.every-socket-created-is-closed-in-the-end", t.closed >= 1)
	}
	verifAssert("C03.client-gets-nothing-unsolicited", len(client.writes) == 0)
	verifAssert("C18.udp.no-goroutine-left", verifBlockedIn("timedCopy") == 0)
	verifReach("C04.two-sockets", nSock == 2)
	verifReach("C03.second-on-same-association", nSock == 1 && k > 1 && assocs[dgrams[0].from] != nil && assocs[dgrams[0].from].writes == 2)
}

func VH_C03_upstream() { verifUDP(2, 2, 2, false) }

var verifUDPOneCipher bool

// three datagrams (multi-step sequences: accepted / refused / accepted again ...) over a reduced
// alphabet: one key, one cipher, two client addresses
func VH_C03_upstream_three() {
	verifUDPOneCipher = true
	defer func() { verifUDPOneCipher = false }()
	verifUDP(3, 1, 2, false)
}

func VH_C03_upstream_T() { verifUDP(3, 1, 2, false) }

// C05 over UDP: every datagram of an association is checked, for every destination address
func VH_C05_udp() { verifUDP(2, 1, 1, true) }

// replies: encrypted under the association's key with a fresh salt, carrying the true sender
func verifUDPReplies(nReplies int) {
	verifResetNet()
	cl, specs, _ := verifMakeList(1+verifChoice("nkeys", 1+verifTier()), 2, false)
	ks := specs[verifChoice("which-key", len(specs))]
	key := verifKey(ks.cipher, verifSecrets[ks.secret])
	um := &verifUDPMetrics{}
	h := NewPacketHandler(defaultNatTimeout, cl, um, nil)
	client := &verifPacketConn{name: "client"}
	type rep struct {
		kind int
		addr *net.UDPAddr
		body []byte
	}
	reps := make([]rep, nReplies)
	for i := range reps {
		reps[i].kind = verifChoice("raddr-kind", 3)
		reps[i].addr = verifRaddrLite(reps[i].kind)
		reps[i].body = verifBytes("body", []int{0, 2}[verifChoice("blen", 2)])
	}
	verifReplyScript = func(i int, pc *verifPacketConn) {
		for _, r := range reps {
			pc.reads = append(pc.reads, verifRead{data: r.body, n: len(r.body), addr: r.addr})
		}
	}
	wire := verifPack(key, verifSocksV4([]byte{93, 184, 216, 34}, 53, []byte("q")))
	client.reads = []verifRead{{data: wire, addr: verifClientAddrs[0]}}
	h.Handle(client)
	verifQuiesce()
	verifAssert("C03.reply.count|C04.reply.every-datagram-from-any-sender-is-delivered", len(client.writes) == nReplies)
	for i := range reps {
		if i >= len(client.writes) {
			break
		}
		w := client.writes[i]
		verifAssert("C04.reply-to-association-client", w.addr == net.Addr(verifClientAddrs[0]))
		pt, err := shadowsocks.Unpack(nil, w.data, key)
		verifAssert("C03.reply.decrypts-under-association-key", err == nil)
		if err != nil {
			continue
		}
		a := socks.SplitAddr(pt)
		verifAssert("C03.reply.has-address", a != nil)
		if a == nil {
			continue
		}
		ip := reps[i].addr.IP
		if ip4 := ip.To4(); ip4 != nil {
			verifAssert("C03.reply.sender-v4", a[0] == 1 && verifBytesEq(a[1:5], ip4) && int(a[5])<<8|int(a[6]) == reps[i].addr.Port)
		} else {
			verifAssert("C03.reply.sender-v6", a[0] == 4 && verifBytesEq(a[1:17], ip) && int(a[17])<<8|int(a[18]) == reps[i].addr.Port)
			verifReach("C03.reply.v6", true)
		}
		verifAssert("C03.reply.body-intact", verifBytesEq(pt[len(a):], reps[i].body))
		if len(um.entries) == 1 && len(um.entries[0].fromTarget) > i {
			r := um.entries[0].fromTarget[i]
			verifAssert("C16.reply-report", r.status == "OK" && r.a == int64(len(reps[i].body)) && r.b == int64(len(w.data)))
		} else {
			verifAssert("C16.reply-reported", false)
		}
	}
	if nReplies >= 2 && len(client.writes) >= 2 {
		ss := key.SaltSize()
		// fresh salt per packet: the two salts are independent draws (they can differ in every byte)
		verifAssert("C03.reply.fresh-salt-per-packet", verifFreshBytes(client.writes[0].data[:ss], client.writes[1].data[:ss]))
		verifReach("C03.reply.salts-differ", client.writes[0].data[0] != client.writes[1].data[0])
		verifReach("C03.reply.salts-differ-last", client.writes[0].data[ss-1] != client.writes[1].data[ss-1])
	}
	verifReach("C03.reply.done", true)
}

func VH_C03_replies() { verifUDPReplies(2) }

// sender addresses with a symbolic low part only (keeps stdlib To4/IsZero loops from forking)
func verifRaddrLite(kind int) *net.UDPAddr {
	port := []int{53, 4000}[verifChoice("rport", 2)]
	low := verifBytes("rlow", 4)
	switch kind {
	case 0:
		return &net.UDPAddr{IP: net.IP{low[0], low[1], low[2], low[3]}, Port: port}
	case 1:
		return &net.UDPAddr{IP: net.IP{0, 0, 0, 0, 0, 0, 0, 0, 0, 0, 0xff, 0xff, low[0], low[1], low[2], low[3]}, Port: port}
	default:
		return &net.UDPAddr{IP: net.IP{0x20, 0x01, 0x0d, 0xb8, 0, 0, 0, 0, 0, 0, 0, 1, low[0], low[1], low[2], low[3]}, Port: port}
	}
}

// C04: client addresses that differ only in the IPv6 zone are different clients
func VH_C04_zoned_clients() {
	verifResetNet()
	cl, specs, _ := verifMakeList(1, 1, false)
	key := verifKey(specs[0].cipher, verifSecrets[specs[0].secret])
	um := &verifUDPMetrics{}
	h := NewPacketHandler(defaultNatTimeout, cl, um, nil)
	client := &verifPacketConn{name: "client"}
	ll := net.IP{0xfe, 0x80, 0, 0, 0, 0, 0, 0, 0, 0, 0, 0, 0, 0, 0, 1}
	c1 := &net.UDPAddr{IP: ll, Port: 4000, Zone: "eth0"}
	c2 := &net.UDPAddr{IP: ll, Port: 4000, Zone: "eth1"}
	body := verifBytes("reply", 2)
	verifReplyScript = func(i int, pc *verifPacketConn) {
		if i == 1 {
			pc.reads = append(pc.reads, verifRead{data: body, n: 2, addr: &net.UDPAddr{IP: net.IPv4(93, 184, 216, 34), Port: 53}})
		}
	}
	client.reads = []verifRead{
		{data: verifPack(key, verifSocksV4([]byte{93, 184, 216, 34}, 53, []byte("a"))), addr: c1},
		{data: verifPack(key, verifSocksV4([]byte{93, 184, 216, 34}, 53, []byte("b"))), addr: c2},
	}
	h.Handle(client)
	verifQuiesce()
	verifAssert("C04.zoned.two-sockets", len(verifTargets) == 2)
	if len(verifTargets) == 2 {
		verifAssert("C04.zoned.each-on-its-own-socket", len(verifTargets[0].writes) == 1 && len(verifTargets[1].writes) == 1)
	}
	// the reply that arrived on the second client's socket goes to the second client only
	verifAssert("C04.zoned.reply-delivered-once", len(client.writes) == 1)
	if len(client.writes) == 1 {
		verifAssert("C04.zoned.reply-to-second-client", client.writes[0].addr == net.Addr(c2))
	}
	verifReach("C04.zoned.done", true)
}

// blocking outbound sockets (for associations that stay alive while others are created)
var verifTargetBlocking bool
var verifChanTargets []*verifChanPC

// C04 / C19: associations that are alive at the same time never share packet memory: replies
// relayed for one association are unaffected by traffic of another
func VH_C04_reply_isolation() {
	verifResetNet()
	verifRaceDetect(true)
	verifTargetBlocking = true
	verifChanTargets = nil
	defer func() { verifTargetBlocking = false }()
	_, specs, _ := verifMakeList(1, 1, false)
	key := verifKey(specs[0].cipher, verifSecrets[specs[0].secret])
	um := &verifUDPMetrics{}
	nm := newNATmap(defaultNatTimeout, um, noopLogger())
	client := &verifPacketConn{name: "client"}
	src := &net.UDPAddr{IP: net.IPv4(93, 184, 216, 34), Port: 4000}
	t1pc, _ := verifListenPacket("udp", "")
	t1 := t1pc.(*verifChanPC)
	nm.Add(verifClientAddrs[0], client, key, t1, "id-0")
	r1 := verifBytes("r1", 3)
	verifInject(t1, r1, src) // association 1 relays one reply and keeps running
	verifQuiesce()
	t2pc, _ := verifListenPacket("udp", "")
	t2 := t2pc.(*verifChanPC)
	nm.Add(verifClientAddrs[1], client, key, t2, "id-0")
	r2 := verifBytes("r2", 3)
	verifInject(t2, r2, src)
	verifQuiesce()
	r3 := verifBytes("r3", 3)
	verifInject(t1, r3, src)
	verifQuiesce()
	writes := client.Writes()
	verifAssert("C04.isolation.three-replies", len(writes) == 3)
	want := [][]byte{r1, r2, r3}
	to := []net.Addr{verifClientAddrs[0], verifClientAddrs[1], verifClientAddrs[0]}
	for i := 0; i < 3 && i < len(writes); i++ {
		w := writes[i]
		verifAssert("C04.isolation.right-client", w.addr == to[i])
		pt, err := shadowsocks.Unpack(nil, w.data, key)
		verifAssert("C04.isolation.decrypts", err == nil)
		if err == nil {
			verifAssert("C04.isolation.body-intact", len(pt) == 7+3 && verifBytesEq(pt[7:], want[i]))
		}
	}
	t1.Expire()
	t2.Expire()
	verifQuiesce()
	verifAssert("C04.isolation.reclaimed", t1.Closed() == 1 && t2.Closed() == 1 && verifBlockedIn("timedCopy") == 0)
	verifReach("C04.isolation.done", true)
}

// C14: when the packet listener is shut down, Handle returns and every live association is
// expired promptly (its outbound socket closed, its removal reported)
func VH_C14_shutdown_through_handle() {
	verifResetNet()
	verifTargetBlocking = true
	verifChanTargets = nil
	defer func() { verifTargetBlocking = false }()
	cl, specs, _ := verifMakeList(1, 1, false)
	key := verifKey(specs[0].cipher, verifSecrets[specs[0].secret])
	um := &verifUDPMetrics{}
	h := NewPacketHandler(defaultNatTimeout, cl, um, nil)
	client := &verifPacketConn{name: "client"}
	n := 1 + verifChoice("clients", 2)
	for i := 0; i < n; i++ {
		client.reads = append(client.reads, verifRead{data: verifPack(key, verifSocksV4([]byte{93, 184, 216, 34}, 443, []byte("x"))), addr: verifClientAddrs[i]})
	}
	h.Handle(client) // the client socket reports closed after the scripted datagrams
	verifQuiesce()
	verifAssert("C14.shutdown-handle.associations", len(verifChanTargets) == n && len(um.entries) == n)
	for i := 0; i < len(verifChanTargets) && i < len(um.entries); i++ {
		verifAssert("C14.shutdown-handle.socket-closed", verifChanTargets[i].Closed() == 1)
		verifAssert("C18.udp.socket-gone-after-shutdown", verifChanTargets[i].Closed() == 1)
		verifAssert("C14.shutdown-handle.removed-once", um.entries[i].removed == 1)
		// (the removal report is what ends the client's tunnel time and balances the NAT entry count)
		verifAssert("C16.shutdown-handle.removed-once", um.entries[i].removed == 1)
		verifAssert("C17.shutdown-handle.removal-reported-so-the-tunnel-ends", um.entries[i].removed == 1)
	}
	verifAssert("C14.shutdown-handle.no-goroutine-left", verifBlockedIn("timedCopy") == 0)
	verifReach("C14.shutdown-handle.done", true)
}

// C16: a reply that could not be written to the client is reported with status ERR_WRITE and
// zero bytes sent to the client; the other replies are unaffected
func VH_C16_failed_client_write() {
	verifResetNet()
	cl, specs, _ := verifMakeList(1, 1, false)
	key := verifKey(specs[0].cipher, verifSecrets[specs[0].secret])
	um := &verifUDPMetrics{}
	h := NewPacketHandler(defaultNatTimeout, cl, um, nil)
	client := &verifPacketConn{name: "client"}
	failAt := 1 + verifChoice("fail-at", 3)
	client.writeFailAt = failAt
	src := &net.UDPAddr{IP: net.IPv4(93, 184, 216, 34), Port: 4000}
	bodies := [][]byte{verifBytes("b1", 2), verifBytes("b2", 3), verifBytes("b3", 1)}
	verifReplyScript = func(i int, pc *verifPacketConn) {
		for _, b := range bodies {
			pc.reads = append(pc.reads, verifRead{data: b, n: len(b), addr: src})
		}
	}
	client.reads = []verifRead{{data: verifPack(key, verifSocksV4([]byte{93, 184, 216, 34}, 443, []byte("q"))), addr: verifClientAddrs[0]}}
	h.Handle(client)
	verifQuiesce()
	verifAssert("C16.failed-write.reports", len(um.entries) == 1 && len(um.entries[0].fromTarget) == 3)
	if len(um.entries) == 1 && len(um.entries[0].fromTarget) == 3 {
		sent := int64(0)
		for i, r := range um.entries[0].fromTarget {
			if i+1 == failAt {
				verifAssert("C16.failed-write.status-and-zero-bytes", r.status == "ERR_WRITE" && r.a == int64(len(bodies[i])) && r.b == 0)
			} else {
				verifAssert("C16.failed-write.others-ok", r.status == "OK" && r.a == int64(len(bodies[i])))
			}
			sent += r.b
		}
		total := int64(0)
		for _, w := range client.Writes() {
			total += int64(len(w.data))
		}
		verifAssert("C16.failed-write.sum-equals-socket", sent == total)
		// whatever did reach the client is a well-formed reply: sender address, then the body
		wi := 0
		for i := range bodies {
			if i+1 == failAt {
				continue
			}
			ws := client.Writes()
			verifAssert("C03.failed-write.other-replies-delivered", wi < len(ws))
			if wi < len(ws) {
				pt, err := shadowsocks.Unpack(nil, ws[wi].data, key)
				verifAssert("C03.failed-write.reply-decrypts", err == nil)
				if err == nil {
					verifAssert("C03.failed-write.reply-intact", len(pt) == 7+len(bodies[i]) && pt[0] == 1 && verifBytesEq(pt[1:5], []byte{93, 184, 216, 34}) && verifBytesEq(pt[7:], bodies[i]))
				}
			}
			wi++
		}
		verifAssert("C03.failed-write.nothing-else-sent", len(client.Writes()) == wi)
	}
	// one undeliverable reply does not end the association: it goes on relaying what the target sends
	verifAssert("C14.failed-write.association-outlives-an-undeliverable-reply", len(verifTargets) == 1 && verifTargets[0].readPos == 3 && len(um.entries) == 1 && um.entries[0].removed == 1)
	verifReach("C16.failed-write.done", true)
}

// C04: after its listener generation has ended, a client's next datagram (handled by the next
// generation) finds the old association expired: one live outbound socket per client address
func VH_C04_one_socket_across_generations() {
	verifResetNet()
	verifTargetBlocking = true
	verifChanTargets = nil
	defer func() { verifTargetBlocking = false }()
	cl, specs, _ := verifMakeList(1, 1, false)
	key := verifKey(specs[0].cipher, verifSecrets[specs[0].secret])
	for gen := 0; gen < 2; gen++ {
		h := NewPacketHandler(defaultNatTimeout, cl, &verifUDPMetrics{}, nil)
		client := &verifPacketConn{name: "client"}
		client.reads = []verifRead{{data: verifPack(key, verifSocksV4([]byte{93, 184, 216, 34}, 443, []byte("x"))), addr: verifClientAddrs[0]}}
		h.Handle(client) // returns when this generation's listener handle is closed
		verifQuiesce()
		live := 0
		for _, t := range verifChanTargets {
			if t.Closed() == 0 {
				live++
			}
		}
		verifAssert("C04.generations.at-most-one-live-socket-per-client", live <= 0)
	}
	verifAssert("C04.generations.two-associations-in-total", len(verifChanTargets) == 2)
	verifReach("C04.generations.done", true)
}

// C04: a datagram that is refused (junk, wrong key, refused destination) from a client that has
// no association yet leaves no trace: the client's next valid datagram gets a socket of its own
func VH_C04_rejected_then_valid() {
	verifResetNet()
	cl, specs, _ := verifMakeList(1, 1, false)
	key := verifKey(specs[0].cipher, verifSecrets[specs[0].secret])
	um := &verifUDPMetrics{}
	h := NewPacketHandler(defaultNatTimeout, cl, um, nil)
	client := &verifPacketConn{name: "client"}
	y, x := verifClientAddrs[0], verifClientAddrs[1+verifChoice("x-addr", 2)]
	var bad []byte
	switch verifChoice("refused-how", 3) {
	case 0:
		bad = verifBytes("junk", 61)
	case 1:
		bad = verifPack(verifKey(0, "s3"), verifSocksV4([]byte{93, 184, 216, 34}, 443, []byte("n")))
	case 2:
		bad = verifPack(key, verifSocksV4([]byte{10, 0, 0, 1}, 443, []byte("p")))
	}
	py, px := verifBytes("py", 2), verifBytes("px", 3)
	body := verifBytes("reply", 2)
	verifReplyScript = func(i int, pc *verifPacketConn) {
		if i == 1 {
			pc.reads = append(pc.reads, verifRead{data: body, n: 2, addr: &net.UDPAddr{IP: net.IPv4(93, 184, 216, 34), Port: 443}})
		}
	}
	client.reads = []verifRead{
		{data: verifPack(key, verifSocksV4([]byte{93, 184, 216, 34}, 443, py)), addr: y},
		{data: bad, addr: x},
		{data: verifPack(key, verifSocksV4([]byte{93, 184, 216, 34}, 443, px)), addr: x},
	}
	h.Handle(client)
	verifQuiesce()
	verifAssert("C04.rejected-then-valid.own-socket", len(verifTargets) == 2)
	if len(verifTargets) == 2 {
		verifAssert("C04.rejected-then-valid.each-datagram-on-its-clients-socket",
			len(verifTargets[0].writes) == 1 && verifBytesEq(verifTargets[0].writes[0].data, py) &&
				len(verifTargets[1].writes) == 1 && verifBytesEq(verifTargets[1].writes[0].data, px))
	}
	ws := client.Writes()
	verifAssert("C04.rejected-then-valid.reply-to-the-socket-owner", len(ws) == 1 && ws[0].addr == net.Addr(x))
	verifReach("C04.rejected-then-valid.done", true)
}

// C03: one handler serves two listeners (one Handle loop per listener, as the server runs them).
// The second listener's datagram is handled completely while the first one's destination is
// being validated (the validator hook holds no lock, so anything may run there): the datagrams
// of the two loops do not mix
func VH_C03_two_listeners_one_handler() {
	verifResetNet()
	key0 := verifKey(verifChoice("cipher", 4), verifSecrets[0])
	l := list.New()
	e0 := MakeCipherEntry("id-0", key0, verifSecrets[0])
	l.PushBack(&e0)
	cl := NewCipherList()
	cl.Update(l)
	h := NewPacketHandler(defaultNatTimeout, cl, &verifUDPMetrics{}, nil)
	p := [][]byte{verifBytes("first", 5), verifBytes("second", 5)}
	clients := make([]*verifPacketConn, 2)
	for i := range clients {
		clients[i] = &verifPacketConn{name: "client"}
		clients[i].reads = []verifRead{{data: verifPack(key0, verifSocksV4([]byte{93, 184, 216, byte(34 + i)}, 443, p[i])), addr: verifClientAddrs[i]}}
	}
	calls := 0
	if verifFlag("during-validation") {
		h.SetTargetIPValidator(func(ip net.IP) error {
			calls++
			if calls == 1 {
				h.Handle(clients[1]) // the other listener's loop gets its datagram now
			}
			return nil
		})
	} else {
		// ... or a little later, while the first one's outbound socket is being opened
		verifOnTargetListen = func() { h.Handle(clients[1]) }
	}
	h.Handle(clients[0])
	verifQuiesce()
	verifAssert("C03.two-listeners.both-forwarded", len(verifTargets) == 2)
	seen := 0
	for _, t := range verifTargets {
		for _, w := range t.writes {
			ua := w.addr.(*net.UDPAddr)
			i := int(ua.IP.To4()[3]) - 34
			verifAssert("C03.two-listeners.payload-is-that-clients", i >= 0 && i < 2 && verifBytesEq(w.data, p[i]))
			seen++
		}
	}
	verifAssert("C03.two-listeners.each-once", seen == 2)
	verifReach("C03.two-listeners.done", true)
}

// C16: a datagram too short to be anything, on an existing association, is still reported once
// with its wire size and an error status
func VH_C16_runt_on_association() {
	verifResetNet()
	cl, specs, _ := verifMakeList(1, 1, false)
	key := verifKey(specs[0].cipher, verifSecrets[specs[0].secret])
	um := &verifUDPMetrics{}
	h := NewPacketHandler(defaultNatTimeout, cl, um, nil)
	client := &verifPacketConn{name: "client"}
	n := []int{0, 1, 10, 31, 32, 33}[verifChoice("runt-length", 6)]
	runt := verifBytes("runt", n)
	first := verifPack(key, verifSocksV4([]byte{93, 184, 216, 34}, 443, []byte("a")))
	last := verifPack(key, verifSocksV4([]byte{93, 184, 216, 34}, 443, []byte("bc")))
	client.reads = []verifRead{{data: first, addr: verifClientAddrs[0]}, {data: runt, n: n, addr: verifClientAddrs[0]}, {data: last, addr: verifClientAddrs[0]}}
	h.Handle(client)
	verifQuiesce()
	verifAssert("C16.runt.one-association", len(um.entries) == 1)
	if len(um.entries) == 1 {
		fc := um.entries[0].fromClient
		verifAssert("C16.runt.every-datagram-reported-once", len(fc) == 3)
		if len(fc) == 3 {
			verifAssert("C16.runt.first", fc[0].status == "OK" && fc[0].a == int64(len(first)) && fc[0].b == 1)
			verifAssert("C16.runt.reported-with-wire-size-and-error", fc[1].status != "OK" && fc[1].a == int64(n) && fc[1].b == 0)
			verifAssert("C16.runt.last", fc[2].status == "OK" && fc[2].a == int64(len(last)) && fc[2].b == 2)
		}
	}
	verifReach("C16.runt.done", true)
}

// C03: every reply of a long-lived association carries a salt of its own (here 44 replies, every
// cipher: salt sizes 16, 24 and 32)
func VH_C03_many_replies_fresh_salts() {
	verifResetNet()
	ci := verifChoice("cipher", 4)
	key := verifKey(ci, verifSecrets[0])
	l := list.New()
	e0 := MakeCipherEntry("id-0", key, verifSecrets[0])
	l.PushBack(&e0)
	cl := NewCipherList()
	cl.Update(l)
	h := NewPacketHandler(defaultNatTimeout, cl, &verifUDPMetrics{}, nil)
	client := &verifPacketConn{name: "client"}
	const n = 44
	src := &net.UDPAddr{IP: net.IPv4(93, 184, 216, 34), Port: 4000}
	verifReplyScript = func(i int, pc *verifPacketConn) {
		for k := 0; k < n; k++ {
			pc.reads = append(pc.reads, verifRead{data: []byte{byte(k)}, n: 1, addr: src})
		}
	}
	client.reads = []verifRead{{data: verifPack(key, verifSocksV4([]byte{93, 184, 216, 34}, 4000, []byte("q"))), addr: verifClientAddrs[0]}}
	h.Handle(client)
	verifQuiesce()
	ws := client.Writes()
	verifAssert("C03.many-replies.all-relayed", len(ws) == n)
	ss := key.SaltSize()
	for i := 0; i < len(ws); i++ {
		for j := 0; j < i; j++ {
			verifAssert("C03.many-replies.fresh-salt-per-reply", verifFreshBytes(ws[i].data[:ss], ws[j].data[:ss]))
		}
	}
	verifReach("C03.many-replies.done", true)
}

// C14: a datagram that does not authenticate, arriving from the address of a live association,
// changes nothing about that association's deadline
func VH_C14_junk_on_association() {
	verifResetNet()
	cl, specs, _ := verifMakeList(1, 1, false)
	key := verifKey(specs[0].cipher, verifSecrets[specs[0].secret])
	um := &verifUDPMetrics{}
	h := NewPacketHandler(defaultNatTimeout, cl, um, nil)
	client := &verifPacketConn{name: "client"}
	// (lengths that differ from the valid datagrams', so the junk cannot be a replay of one)
	junk := verifBytes("junk", []int{0, 41, 120}[verifChoice("junk-length", 3)])
	client.reads = []verifRead{
		{data: verifPack(key, verifSocksV4([]byte{93, 184, 216, 34}, 443, []byte("a"))), addr: verifClientAddrs[0]},
		{data: junk, n: len(junk), addr: verifClientAddrs[0]},
		{data: verifPack(key, verifSocksV4([]byte{93, 184, 216, 34}, 443, []byte("b"))), addr: verifClientAddrs[0]},
	}
	h.Handle(client)
	verifQuiesce()
	verifAssert("C14.junk.one-association", len(verifTargets) == 1 && len(um.entries) == 1)
	if len(verifTargets) == 1 {
		t := verifTargets[0]
		// before the shutdown the deadline never moved earlier, whatever the junk did to it
		verifAssert("C14.junk.both-valid-datagrams-forwarded", len(t.writes) == 2)
		verifAssert("C14.impl.junk.some-deadline-armed", len(t.deadlines) >= 1)
		for i := 1; i+1 < len(t.deadlines); i++ {
			verifAssert("C14.impl.junk.deadline-never-earlier", !t.deadlines[i].Before(t.deadlines[i-1]))
		}
	}
	verifReach("C14.junk.done", true)
}

// C04 / C14: the client's next datagram arrives while its expired association is being torn down
// (between the end of the relay loop and the removal of the entry): afterwards every association
// that has not been reported removed still has its socket open, and the client has at most one
func VH_C04_datagram_during_teardown() {
	verifResetNet()
	verifTargetBlocking = true
	verifChanTargets = nil
	defer func() { verifTargetBlocking = false }()
	cl, specs, _ := verifMakeList(1, 1, false)
	key := verifKey(specs[0].cipher, verifSecrets[specs[0].secret])
	um := &verifUDPMetrics{}
	h := NewPacketHandler(defaultNatTimeout, cl, um, nil)
	client := &verifChanPC{in: make(chan verifRead), closedCh: make(chan struct{}), local: &net.UDPAddr{IP: net.IPv4(192, 0, 2, 1), Port: 9}}
	done := make(chan struct{})
	go func() { h.Handle(client); close(done) }()
	send := func(b byte) {
		verifInject(client, verifPack(key, verifSocksV4([]byte{93, 184, 216, 34}, 443, []byte{b})), verifClientAddrs[0])
		verifQuiesce()
	}
	during := 0
	um.onAdd = func(cm *verifUDPConnMetrics) {
		if len(um.entries) == 1 {
			cm.onRemove = func() {
				during++
				// arrives right now; the junk datagram from elsewhere that follows is taken by
				// the handler only once it is done with this one
				verifInject(client, verifPack(key, verifSocksV4([]byte{93, 184, 216, 34}, 443, []byte{'2'})), verifClientAddrs[0])
				verifInject(client, []byte("junk from somebody else, no key fits this"), verifClientAddrs[2])
			}
		}
	}
	send('1')
	verifAssert("C04.teardown.first-association", len(verifChanTargets) == 1)
	verifChanTargets[0].Expire() // its deadline passes
	verifQuiesce()
	verifAssert("C04.teardown.datagram-arrived-during-the-teardown", during == 1)
	send('3')
	live := 0
	for i, cm := range um.entries {
		if cm.removed == 0 {
			live++
			verifAssert("C04.teardown.live-association-keeps-its-socket", i < len(verifChanTargets) && verifChanTargets[i].Closed() == 0)
		} else {
			verifAssert("C14.teardown.removed-association-socket-closed", i < len(verifChanTargets) && verifChanTargets[i].Closed() == 1)
		}
	}
	verifAssert("C04.teardown.at-most-one-live-association-per-client", live <= 1)
	// each of the three datagrams was relayed on some association and is reported there, once:
	// also the one that arrived while its association was being removed
	reports, okReports, relayed := 0, 0, 0
	for i, cm := range um.entries {
		reports += len(cm.fromClient)
		for _, r := range cm.fromClient {
			if r.status == "OK" {
				okReports++
			}
		}
		if i < len(verifChanTargets) {
			relayed += len(verifChanTargets[i].Written())
		}
	}
	verifAssert("C16.teardown.every-datagram-reported-once", reports == 3)
	verifAssert("C16.teardown.reports-match-the-sockets", okReports == relayed)
	// the last datagram left on the live association's socket
	if live == 1 {
		last := verifChanTargets[len(verifChanTargets)-1].Written()
		verifAssert("C04.teardown.latest-datagram-on-the-live-socket|C18.teardown.listener-keeps-serving-after-a-failed-write", len(last) >= 1 && last[len(last)-1].data[0] == '3')
	}
	client.Close()
	verifQuiesce()
	_, stillRunning := <-done
	verifAssert("C04.teardown.handle-returned|C18.teardown.handle-returns-when-the-listener-closes", !stillRunning && verifBlockedIn("timedCopy") == 0)
	verifReach("C04.teardown.done", true)
}

// C05: the check applies to every datagram of an association: a forbidden destination that was
// refused once is refused again, whatever was sent before
func VH_C05_udp_refused_target_again() {
	verifResetNet()
	cl, specs, _ := verifMakeList(1, 1, false)
	key := verifKey(specs[0].cipher, verifSecrets[specs[0].secret])
	um := &verifUDPMetrics{}
	h := NewPacketHandler(defaultNatTimeout, cl, um, nil)
	client := &verifPacketConn{name: "client"}
	bad := verifBytes("forbidden", 4)
	verifAssume(verifMustRejectV4(bad))
	n := 2 + verifChoice("repeats", 2)
	client.reads = []verifRead{{data: verifPack(key, verifSocksV4([]byte{93, 184, 216, 34}, 443, []byte("ok"))), addr: verifClientAddrs[0]}}
	for i := 0; i < n; i++ {
		client.reads = append(client.reads, verifRead{data: verifPack(key, verifSocksV4(bad, 443, []byte("no"))), addr: verifClientAddrs[0]})
	}
	h.Handle(client)
	verifQuiesce()
	for _, t := range verifTargets {
		for _, w := range t.writes {
			verifAssert("C05.refused-again.destination-allowed", !verifMustReject(w.addr.(*net.UDPAddr).IP))
		}
	}
	if len(um.entries) == 1 {
		verifAssert("C05.refused-again.every-attempt-refused", len(um.entries[0].fromClient) == n+1)
		for i, r := range um.entries[0].fromClient {
			if i > 0 {
				verifAssert("C05.refused-again.status", r.status != "OK" && r.b == 0)
			}
		}
	}
	verifReach("C05.refused-again.done", len(um.entries) == 1)
}

// the socket refuses a datagram to the target (unreachable network, EPERM ...), possibly the very
// one that opened the association: that datagram is reported with the write error and nothing
// relayed, the others are relayed, and the association is still reclaimed once its time is up
// (while the listener goes on serving): removed once, socket closed, no goroutine left
func VH_C16_failed_target_write() {
	verifResetNet()
	cl, specs, _ := verifMakeList(1, 1, false)
	key := verifKey(specs[0].cipher, verifSecrets[specs[0].secret])
	um := &verifUDPMetrics{}
	h := NewPacketHandler(defaultNatTimeout, cl, um, nil)
	client := &verifChanPC{in: make(chan verifRead), closedCh: make(chan struct{}), local: &net.UDPAddr{IP: net.IPv4(192, 0, 2, 1), Port: 9}}
	done := make(chan struct{})
	go func() { h.Handle(client); close(done) }()
	n := 1 + verifChoice("datagrams", 2)
	failAt := 1 + verifChoice("fail-at", n)
	// the error is an opaque one (EPERM, unreachable network) or the one a socket closed meanwhile
	// gives ("use of closed network connection"): either way it concerns that datagram only
	asClosed := verifFlag("write-fails-as-closed")
	verifReplyScript = func(i int, pc *verifPacketConn) {
		pc.writeFailAt = failAt
		pc.writeFailClosed = asClosed
		// the target never answers: the association lives until its deadline
		pc.reads = nil
	}
	for i := 0; i < n; i++ {
		verifInject(client, verifPack(key, verifSocksV4([]byte{93, 184, 216, 34}, 443, []byte{'q', byte(i)})), verifClientAddrs[0])
		if i+1 < n {
			verifPause()
		}
	}
	verifQuiesce()
	// (the scripted target socket times out as soon as a deadline is armed and nothing is left to
	// read; without any deadline a read on it waits for ever, as on a real socket)
	verifAssert("C16.failed-target-write.associations", len(um.entries) >= 1 && len(um.entries) == len(verifTargets))
	reports, forwarded := 0, 0
	for i, cm := range um.entries {
		reports += len(cm.fromClient)
		for _, r := range cm.fromClient {
			verifAssert("C16.failed-target-write.status-and-bytes", (r.status == "ERR_WRITE" && r.b == 0) || (r.status == "OK" && r.b == 2))
		}
		if i < len(verifTargets) {
			forwarded += len(verifTargets[i].Writes())
			verifAssert("C16.failed-target-write.removed-once|C14.failed-target-write.removed-once", cm.removed == 1)
			verifAssert("C14.failed-target-write.socket-closed|C18.failed-target-write.socket-closed", verifTargets[i].closed == 1)
		}
	}
	verifAssert("C16.failed-target-write.every-datagram-reported-once|C18.failed-target-write.listener-goes-on-serving", reports == n)
	verifAssert("C18.failed-target-write.no-goroutine-left|C14.failed-target-write.no-goroutine-left", verifBlockedIn("timedCopy") == 0)
	client.Close()
	verifQuiesce()
	<-done
	verifReach("C16.failed-target-write.done", true)
}

// the id of a key is configuration data, not a search result: a key configured without an id
// (or with any id) is a key of the service over UDP as it is over TCP. Its datagram opens an
// association attributed to that id, is forwarded, and the search is reported as successful
func VH_C09_udp_key_with_any_id() {
	verifResetNet()
	verifEmptyIDs = verifFlag("empty-key-ids")
	defer func() { verifEmptyIDs = false }()
	cl, specs, entries := verifMakeList(1+verifChoice("keys", 2), 2, false)
	which := verifChoice("which", len(specs))
	key := verifKey(specs[which].cipher, verifSecrets[specs[which].secret])
	um := &verifUDPMetrics{}
	h := NewPacketHandler(defaultNatTimeout, cl, um, nil)
	client := &verifPacketConn{name: "client"}
	client.reads = []verifRead{{data: verifPack(key, verifSocksV4([]byte{93, 184, 216, 34}, 443, []byte("q"))), addr: verifClientAddrs[0]}}
	h.Handle(client)
	verifQuiesce()
	verifAssert("C09.udp-any-id.association-opened|C03.udp-any-id.association-opened", len(um.entries) == 1 && len(verifTargets) == 1)
	if len(um.entries) == 1 && len(verifTargets) == 1 {
		ok := false
		for j := range specs {
			if specs[j] == specs[which] && entries[j].ID == um.entries[0].accessKey {
				ok = true
			}
		}
		verifAssert("C09.udp-any-id.attributed-to-the-configured-id|C03.udp-any-id.attributed-to-the-configured-id", ok)
		verifAssert("C09.udp-any-id.forwarded|C03.udp-any-id.forwarded", len(verifTargets[0].writes) == 1 && string(verifTargets[0].writes[0].data) == "q")
	}
	verifReach("C09.udp-any-id.empty", verifEmptyIDs)
}

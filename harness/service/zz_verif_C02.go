package service

// C02 / C08(response salt) / C15(byte counters) — a relayed connection delivers both byte
// streams intact and in order, half-closes each side after its data, and counts the bytes.

import (
	"bytes"
	"container/list"
	"context"
	"io"
	"net"

	"github.com/Jigsaw-Code/outline-sdk/transport/shadowsocks"
)

func verifC02(maxChunks int, sizes []int) {
	cl, specs, entries := verifMakeList(1, 2, false)
	key := verifKey(specs[0].cipher, verifSecrets[specs[0].secret])
	header := []byte{1, 93, 184, 216, 34, 0, 80}
	// client data: coalesced into the first chunk and/or in further chunks
	var want []byte
	var chunks [][]byte
	first := append([]byte{}, header...)
	if verifFlag("coalesced") {
		d := verifBytes("c0", 2)
		first = append(first, d...)
		want = append(want, d...)
	}
	chunks = append(chunks, first)
	nc := verifChoice("nchunks", maxChunks+1)
	for i := 0; i < nc; i++ {
		d := verifBytes("c", sizes[verifChoice("csize", len(sizes))])
		chunks = append(chunks, d)
		want = append(want, d...)
	}
	stream := verifClientStream(key, chunks...)
	verifAssume(!entries[0].SaltGenerator.IsServerSalt(stream[:key.SaltSize()]))
	var glog []string
	conn := &verifStreamConn{name: "client", glog: &glog, remote: &net.TCPAddr{IP: net.IPv4(203, 0, 113, 5), Port: 50000}}
	// the TCP stream may be split anywhere: two reads at a chosen point
	if verifFlag("split") {
		ss := key.SaltSize()
		cuts := []int{1, ss - 1, ss, ss + 1, ss + 2 + 16, 49, 50, 51, len(stream) - 1}
		if verifTier() > 0 {
			cuts = nil
			for i := 1; i < len(stream); i += 2 {
				cuts = append(cuts, i)
			}
		}
		k := cuts[verifChoice("split-at", len(cuts))]
		verifAssume(k > 0 && k < len(stream))
		conn.reads = []verifSRead{{data: stream[:k]}, {data: stream[k:]}}
	} else {
		conn.reads = []verifSRead{{data: stream}}
	}
	// the connection may deliver its last bytes together with the end of the stream
	if verifC02EOFWithData {
		conn.eofWithData = verifFlag("client-eof-with-last-bytes")
	}
	target := &verifStreamConn{name: "target", glog: &glog, remote: &net.TCPAddr{IP: net.IPv4(93, 184, 216, 34), Port: 80}}
	if verifC02EOFWithData {
		target.eofWithData = verifFlag("target-eof-with-last-bytes")
	}
	var back []byte
	nt := verifChoice("ntarget", 3)
	for i := 0; i < nt; i++ {
		d := verifBytes("t", sizes[verifChoice("tsize", len(sizes))])
		target.reads = append(target.reads, verifSRead{data: d})
		back = append(back, d...)
	}
	dialer := &verifDialer{conn: target}
	h := NewStreamHandler(NewShadowsocksStreamAuthenticator(cl, nil, nil, nil), tcpReadTimeout)
	h.SetTargetDialer(dialer)
	m := &verifTCPMetrics{}
	h.Handle(context.Background(), conn, m)

	verifAssert("C02.dialed-header-address", len(dialer.dials) == 1 && dialer.dials[0] == "93.184.216.34:80")
	verifAssert("C02.client-to-target-intact", len(target.written) == len(want) && verifBytesEq(target.written, want))
	// half-close towards the target exactly once and after all data
	verifAssert("C02.target-fin-once", target.closedWrite == 1)
	verifAssert("C02.target-fin-after-data", verifLastIndexEv(target.events, "Write") < verifIndexEv(target.events, "CloseWrite"))
	verifAssert("C02.target-fin-after-client-eof", verifIndexStr(glog, "client:ReadEnd") >= 0 && verifIndexStr(glog, "client:ReadEnd") < verifIndexStr(glog, "target:CloseWrite"))
	// the client can decrypt exactly what the target sent
	r := shadowsocks.NewReader(bytes.NewReader(conn.written), key)
	got, err := io.ReadAll(r)
	verifAssert("C02.target-to-client-decrypts", err == nil)
	verifAssert("C02.target-to-client-intact", len(got) == len(back) && verifBytesEq(got, back))
	verifAssert("C02.client-fin-once", conn.closedWrite == 1)
	verifAssert("C02.client-fin-after-data", verifLastIndexEv(conn.events, "Write") < verifIndexEv(conn.events, "CloseWrite"))
	verifAssert("C02.client-fin-after-target-eof", verifIndexStr(glog, "target:ReadEnd") >= 0 && verifIndexStr(glog, "target:ReadEnd") < verifIndexStr(glog, "client:CloseWrite"))
	verifAssert("C02.closed-last", conn.closed == 1 && conn.events[len(conn.events)-1] == "Close")
	verifAssert("C02.target-closed", target.closed >= 1)
	// nothing limits how long the relay may last: no deadline is left on the client connection
	// once the handshake is over (the handler's context has none)
	verifAssert("C02.no-deadline-left-on-relay", verifHandshakeDeadlineCleared(conn) && (len(conn.connDeadlines) == 0 || conn.connDeadlines[len(conn.connDeadlines)-1].IsZero()))
	// C08: the response starts with a server-marked salt for the matched key
	if len(back) > 0 {
		ss := key.SaltSize()
		verifAssert("C08.response-has-salt", len(conn.written) >= ss)
		if ss >= 20 {
			verifAssert("C08.response-salt-recognised", entries[0].SaltGenerator.IsServerSalt(conn.written[:ss]))
			verifReach("C08.response.prefix-free-low", conn.written[0] == 0)
			verifReach("C08.response.prefix-free-high", conn.written[ss-5] == 0xff)
		}
		verifReach("C02.reply-relayed", true)
	} else {
		verifAssert("C02.no-reply-no-bytes", len(conn.written) == 0)
	}
	// C15: one authenticated report with the id, closed once with OK, counters equal the sockets
	verifAssert("C15.relay.auth-once", len(m.authenticated) == 1 && m.authenticated[0] == "id-0")
	verifAssert("C15.relay.closed-ok", len(m.closed) == 1 && m.closed[0] == "OK" && len(m.probes) == 0)
	verifAssert("C15.relay.order", len(m.order) == 2 && m.order[0] == "auth" && m.order[1] == "closed")
	verifAssert("C15.relay.client-proxy", m.closedData[0] == int64(len(stream)))
	verifAssert("C15.relay.proxy-target", m.closedData[1] == int64(len(want)))
	verifAssert("C15.relay.target-proxy", m.closedData[2] == int64(len(back)))
	verifAssert("C15.relay.proxy-client", m.closedData[3] == int64(len(conn.written)))
	verifAssert("C18.relay.no-goroutine-left", verifBlockedIn("proxyConnection") == 0)
	verifReach("C02.multi-chunk", nc >= 1 && nt >= 2)
}

func VH_C02_relay() { verifC02(1, []int{1, 3}) }

var verifC02EOFWithData bool

// connections that deliver their last bytes together with the end of the stream (io.Reader
// allows it; TLS and in-memory connections do it)
func VH_C02_eof_with_data() {
	verifC02EOFWithData = true
	defer func() { verifC02EOFWithData = false }()
	verifC02(1, []int{3})
}

func VH_C02_relay_T() { verifC02(2, []int{1, 40}) }

// C15: one status naming the real outcome for every way a connection can end after
// authentication; the byte counters never exceed what crossed the sockets
func VH_C15_outcomes() {
	cl, specs, entries := verifMakeList(1, 1, false)
	key := verifKey(specs[0].cipher, verifSecrets[specs[0].secret])
	data := verifBytes("c", 3)
	stream := verifClientStream(key, append([]byte{1, 93, 184, 216, 34, 0, 80}, data...))
	verifAssume(!entries[0].SaltGenerator.IsServerSalt(stream[:key.SaltSize()]))
	conn := &verifStreamConn{name: "client", remote: &net.TCPAddr{IP: net.IPv4(203, 0, 113, 5), Port: 50000}}
	conn.reads = []verifSRead{{data: stream}}
	target := &verifStreamConn{name: "target", remote: &net.TCPAddr{IP: net.IPv4(93, 184, 216, 34), Port: 80}}
	reply := verifBytes("t", 2)
	dialer := &verifDialer{conn: target}
	want := "OK"
	switch verifChoice("outcome", 10) {
	case 9:
		// everything relayed, but the FIN to the client cannot be sent any more (it already went away)
		conn.closeWriteErr = errVerifFault
		target.reads = []verifSRead{{data: reply}}
	case 7:
		// the dial was abandoned because the handler's context was cancelled (server stopping)
		dialer.dialErr = &net.OpError{Op: "dial", Net: "tcp", Err: verifCtxCanceled}
		want = "ERR_CONNECT"
	case 8:
		dialer.dialErr = &net.OpError{Op: "dial", Net: "tcp", Err: verifCtxDeadline}
		want = "ERR_CONNECT"
	case 0:
		target.reads = []verifSRead{{data: reply}}
	case 1:
		dialer.dialErr = errVerifFault
		want = "ERR_CONNECT"
	case 2:
		dialer.dialErr = onetNewConnectionError("ERR_ADDRESS_PRIVATE", "private", nil)
		want = "ERR_ADDRESS_PRIVATE"
	case 3:
		dialer.dialErr = &net.OpError{Op: "dial", Err: onetNewConnectionError("ERR_ADDRESS_INVALID", "invalid", nil)}
		want = "ERR_ADDRESS_INVALID"
	case 4:
		target.reads = []verifSRead{{data: reply}, {err: errVerifFault}}
		want = "ERR_RELAY_TARGET"
	case 5:
		target.writeErr = errVerifFault
		target.reads = []verifSRead{{data: reply}}
		want = "ERR_RELAY_CLIENT"
	case 6:
		conn.writeErr = errVerifFault
		target.reads = []verifSRead{{data: reply}}
		want = "ERR_RELAY_TARGET"
	}
	h := NewStreamHandler(NewShadowsocksStreamAuthenticator(cl, nil, nil, nil), tcpReadTimeout)
	h.SetTargetDialer(dialer)
	if verifFlag("debug-logging") {
		// the server run with -verbose: what is reported must not depend on it
		verifDebugLogging(true)
		h.SetLogger(verifDebugLogger())
	}
	m := &verifTCPMetrics{}
	h.Handle(contextBackground(), conn, m)
	verifDebugLogging(false)
	verifAssert("C15.outcomes.closed-once-last", len(m.closed) == 1 && m.order[len(m.order)-1] == "closed")
	verifAssert("C15.outcomes.status", len(m.closed) == 1 && m.closed[0] == want)
	verifAssert("C15.outcomes.auth-once-before-close", len(m.authenticated) == 1 && m.order[0] == "auth" && len(m.probes) == 0)
	verifAssert("C15.outcomes.client-proxy-bound", m.closedData[0] <= int64(conn.bytesRead))
	verifAssert("C15.outcomes.proxy-target-bound", m.closedData[1] <= int64(len(target.written)))
	verifAssert("C15.outcomes.target-proxy-bound", m.closedData[2] <= int64(target.bytesRead))
	verifAssert("C15.outcomes.proxy-client-bound", m.closedData[3] <= int64(len(conn.written)))
	verifAssert("C15.outcomes.conn-closed", conn.closed == 1)
	verifQuiesce()
	verifAssert("C18.outcomes.no-goroutine-left", verifBlockedIn("proxyConnection") == 0)
	verifReach("C15.outcomes.relay-target-error", want == "ERR_RELAY_TARGET")
}

// a second connection is accepted, authenticated and served completely while the first one is
// between its authentication and the reading of its target address: both streams stay intact
func VH_C02_interleaved_connections() {
	cl, specs, entries := verifMakeList(1, 1, false)
	key := verifKey(specs[0].cipher, verifSecrets[specs[0].secret])
	mk := func(name string, host byte, data []byte) (*verifStreamConn, *verifStreamConn, []byte) {
		stream := verifClientStream(key, append([]byte{1, 93, 184, 216, host, 0, 80}, data...))
		verifAssume(!entries[0].SaltGenerator.IsServerSalt(stream[:key.SaltSize()]))
		c := &verifStreamConn{name: name, remote: &net.TCPAddr{IP: net.IPv4(203, 0, 113, 5), Port: 50000 + int(host)}}
		c.reads = []verifSRead{{data: stream}}
		t := &verifStreamConn{name: name + "-target", remote: &net.TCPAddr{IP: net.IPv4(93, 184, 216, host), Port: 80}}
		return c, t, stream
	}
	d1, d2 := verifBytes("d1", 2), verifBytes("d2", 3)
	c1, t1, _ := mk("c1", 34, d1)
	c2, t2, _ := mk("c2", 35, d2)
	h := NewStreamHandler(NewShadowsocksStreamAuthenticator(cl, nil, nil, nil), tcpReadTimeout)
	m1, m2 := &verifTCPMetrics{}, &verifTCPMetrics{}
	dialer := &verifDialer2{targets: map[string]*verifStreamConn{"93.184.216.34:80": t1, "93.184.216.35:80": t2}}
	h.SetTargetDialer(dialer)
	m1.onAuth = func() { h.Handle(contextBackground(), c2, m2) }
	h.Handle(contextBackground(), c1, m1)
	verifAssert("C02.interleaved.first-ok", len(m1.closed) == 1 && m1.closed[0] == "OK")
	verifAssert("C02.interleaved.second-ok", len(m2.closed) == 1 && m2.closed[0] == "OK")
	verifAssert("C02.interleaved.first-intact", len(t1.written) == 2 && verifBytesEq(t1.written, d1))
	verifAssert("C02.interleaved.second-intact", len(t2.written) == 3 && verifBytesEq(t2.written, d2))
	verifReach("C02.interleaved.done", true)
}

type verifDialer2 struct {
	targets map[string]*verifStreamConn
	dials   []string
}

func (d *verifDialer2) DialStream(ctx contextContext, addr string) (transportStreamConn, error) {
	d.dials = append(d.dials, addr)
	if t, ok := d.targets[addr]; ok {
		return t, nil
	}
	return nil, errVerifFault
}

// C11: a connection that is relaying when its listener generation is stopped (its context is
// cancelled) keeps relaying to completion: no new deadline, data intact, status OK
func VH_C11_relay_survives_reload() {
	cl, specs, entries := verifMakeList(1, 1, false)
	key := verifKey(specs[0].cipher, verifSecrets[specs[0].secret])
	d1, d2 := verifBytes("d1", 2), verifBytes("d2", 3)
	stream := verifClientStream(key, append([]byte{1, 93, 184, 216, 34, 0, 80}, d1...), d2)
	verifAssume(!entries[0].SaltGenerator.IsServerSalt(stream[:key.SaltSize()]))
	first := key.SaltSize() + 2 + 16 + 9 + 16
	ctx, cancel := contextWithCancel()
	conn := &verifStreamConn{name: "client", remote: &net.TCPAddr{IP: net.IPv4(203, 0, 113, 5), Port: 50000}}
	conn.reads = []verifSRead{{data: stream[:first]}, {data: stream[first:]}}
	target := &verifStreamConn{name: "target", remote: &net.TCPAddr{IP: net.IPv4(93, 184, 216, 34), Port: 80}}
	reply := verifBytes("t", 2)
	target.reads = []verifSRead{{data: reply}}
	cancelled := false
	conn.onRead = func(call int) {
		// the reload happens while the relay waits for the client's second chunk
		if target.writeCalls >= 1 && !cancelled {
			cancelled = true
			cancel()
			verifQuiesce()
		}
	}
	h := NewStreamHandler(NewShadowsocksStreamAuthenticator(cl, nil, nil, nil), tcpReadTimeout)
	h.SetTargetDialer(&verifDialer{conn: target})
	m := &verifTCPMetrics{}
	h.Handle(ctx, conn, m)
	verifQuiesce()
	verifAssert("C11.relay.cancel-happened-mid-relay", cancelled)
	verifAssert("C11.relay.status-ok", len(m.closed) == 1 && m.closed[0] == "OK")
	verifAssert("C11.relay.client-data-intact", len(target.written) == 5 && verifBytesEq(target.written, append(append([]byte{}, d1...), d2...)))
	verifAssert("C11.relay.no-deadline-after-header", verifHandshakeDeadlineCleared(conn) && len(target.deadlines) == 0)
	// the same, as C02 states it: the target receives exactly what the client sent, and nothing
	// arms a deadline on an established relay
	verifAssert("C02.relay-across-listener-close.client-data-intact", len(target.written) == 5 && verifBytesEq(target.written, append(append([]byte{}, d1...), d2...)))
	verifAssert("C02.relay-across-listener-close.no-deadline-on-the-relay", verifHandshakeDeadlineCleared(conn))
	verifQuiesce()
	verifAssert("C18.relay-across-listener-close.no-goroutine-left", verifBlockedIn("proxyConnection") == 0)
	verifReach("C11.relay.done", true)
}

// the client half-closes first; the target keeps sending afterwards and everything it sends is
// still delivered (each direction ends independently)
func VH_C02_client_closes_first() {
	cl, specs, entries := verifMakeList(1, 1, false)
	key := verifKey(specs[0].cipher, verifSecrets[specs[0].secret])
	d := verifBytes("c", 2)
	stream := verifClientStream(key, append([]byte{1, 93, 184, 216, 34, 0, 80}, d...))
	verifAssume(!entries[0].SaltGenerator.IsServerSalt(stream[:key.SaltSize()]))
	var glog []string
	conn := &verifStreamConn{name: "client", glog: &glog, remote: &net.TCPAddr{IP: net.IPv4(203, 0, 113, 5), Port: 50000}}
	conn.reads = []verifSRead{{data: stream}}
	target := &verifStreamConn{name: "target", glog: &glog, remote: &net.TCPAddr{IP: net.IPv4(93, 184, 216, 34), Port: 80}}
	t1, t2 := verifBytes("t1", 2), verifBytes("t2", 3)
	target.reads = []verifSRead{{data: t1}, {data: t2}}
	target.onRead = func(call int) {
		if call == 2 {
			verifQuiesce() // the client-to-target direction runs to its end now (client EOF, FIN to target)
		}
	}
	h := NewStreamHandler(NewShadowsocksStreamAuthenticator(cl, nil, nil, nil), tcpReadTimeout)
	h.SetTargetDialer(&verifDialer{conn: target})
	m := &verifTCPMetrics{}
	h.Handle(contextBackground(), conn, m)
	verifQuiesce()
	verifAssert("C02.client-first.status-ok", len(m.closed) == 1 && m.closed[0] == "OK")
	fin := verifIndexStr(glog, "target:CloseWrite")
	verifAssert("C02.client-first.fin-reached-target-mid-stream", fin >= 0 && fin < verifLastIndexStr(glog, "target:Read"))
	verifAssert("C02.client-first.client-data-intact", len(target.written) == 2 && verifBytesEq(target.written, d))
	r := shadowsocks.NewReader(bytes.NewReader(conn.written), key)
	got, err := io.ReadAll(r)
	verifAssert("C02.client-first.target-data-after-fin-delivered", err == nil && len(got) == 5 && verifBytesEq(got, append(append([]byte{}, t1...), t2...)))
	verifAssert("C02.client-first.target-not-closed-early", verifIndexStr(glog, "target:Close") > verifLastIndexStr(glog, "client:Write"))
	verifReach("C02.client-first.done", true)
}

func verifLastIndexStr(evs []string, name string) int {
	k := -1
	for i, e := range evs {
		if e == name {
			k = i
		}
	}
	return k
}

// C01: what earlier connections did (a short probe that failed before the key search) has no
// effect on later ones: two clients whose handshakes overlap (the second one's arrives between
// two segments of the first one's) are each authenticated under their own key
func VH_C01_overlapping_handshakes_after_a_short_probe() {
	l := list.New()
	for i := 0; i < 2; i++ {
		e := MakeCipherEntry("id-"+string(rune('0'+i)), verifKey(0, verifSecrets[i]), verifSecrets[i])
		l.PushBack(&e)
	}
	cl := NewCipherList()
	cl.Update(l)
	h := NewStreamHandler(NewShadowsocksStreamAuthenticator(cl, nil, nil, nil), tcpReadTimeout)
	t1 := &verifStreamConn{name: "t1", remote: &net.TCPAddr{IP: net.IPv4(93, 184, 216, 34), Port: 80}}
	t2 := &verifStreamConn{name: "t2", remote: &net.TCPAddr{IP: net.IPv4(93, 184, 216, 35), Port: 80}}
	h.SetTargetDialer(&verifDialer2{targets: map[string]*verifStreamConn{"93.184.216.34:80": t1, "93.184.216.35:80": t2}})
	// a scanner sends fewer bytes than a handshake and goes away
	nProbe := []int{0, 1, 49}[verifChoice("probe-bytes", 3)]
	probe := &verifStreamConn{name: "probe", remote: &net.TCPAddr{IP: net.IPv4(198, 51, 100, 9), Port: 40000}}
	if nProbe > 0 {
		probe.reads = []verifSRead{{data: verifBytes("probe", nProbe)}}
	}
	h.Handle(contextBackground(), probe, &verifTCPMetrics{})
	mk := func(name string, ki int, host byte, salt int, data []byte) (*verifStreamConn, []byte) {
		buf := &verifBuf{}
		w := verifNewWriterWithSalt(buf, verifKey(0, verifSecrets[ki]), verifFixedSaltGen{salt})
		w.Write(append([]byte{1, 93, 184, 216, host, 0, 80}, data...))
		return &verifStreamConn{name: name, remote: &net.TCPAddr{IP: net.IPv4(203, 0, 113, host), Port: 50000}}, buf.b
	}
	d1, d2 := verifBytes("d1", 2), verifBytes("d2", 3)
	c1, s1 := mk("c1", 0, 34, 1, d1)
	c2, s2 := mk("c2", 1, 35, 2, d2)
	cut := []int{1, 20, 49}[verifChoice("first-segment", 3)]
	c1.reads = []verifSRead{{data: s1[:cut]}, {data: s1[cut:]}}
	c2.reads = []verifSRead{{data: s2}}
	m1, m2 := &verifTCPMetrics{}, &verifTCPMetrics{}
	c1.onRead = func(call int) {
		if call == 2 {
			h.Handle(contextBackground(), c2, m2) // the other client's whole connection happens now
		}
	}
	h.Handle(contextBackground(), c1, m1)
	verifAssert("C01.overlap.first-authenticated-under-its-key", len(m1.authenticated) == 1 && m1.authenticated[0] == "id-0" && len(m1.closed) == 1 && m1.closed[0] == "OK")
	verifAssert("C01.overlap.second-authenticated-under-its-key", len(m2.authenticated) == 1 && m2.authenticated[0] == "id-1" && len(m2.closed) == 1 && m2.closed[0] == "OK")
	verifAssert("C02.overlap.data-intact", verifBytesEq(t1.written, d1) && len(t1.written) == 2 && verifBytesEq(t2.written, d2) && len(t2.written) == 3)
	verifReach("C01.overlap.done", true)
}

// the authenticated report (which starts the connection's tunnel time in the metrics) is made
// when the connection is authenticated, not later: it is there while the server still waits for
// the target address, and when that address never arrives intact
func VH_C17_authenticated_before_the_address() {
	cl, specs, entries := verifMakeList(1, 1, false)
	key := verifKey(specs[0].cipher, verifSecrets[specs[0].secret])
	stream := verifClientStream(key, []byte{1, 93, 184, 216, 34, 0, 80, 'x', 'y'})
	verifAssume(!entries[0].SaltGenerator.IsServerSalt(stream[:key.SaltSize()]))
	conn := &verifStreamConn{name: "client", remote: &net.TCPAddr{IP: net.IPv4(203, 0, 113, 5), Port: 50000}}
	target := &verifStreamConn{name: "target", remote: &net.TCPAddr{IP: net.IPv4(93, 184, 216, 34), Port: 80}}
	m := &verifTCPMetrics{}
	hdr := key.SaltSize() + 2 + 16
	damaged := verifFlag("address-chunk-damaged")
	if damaged {
		// a byte of the chunk that carries the address (its length was authenticated already)
		k := hdr + verifChoice("pos", 9+16)
		stream[k] ^= 1 + verifU8("delta")%255
	}
	// the first 50 bytes come first, the rest of the address chunk only later
	cut := 50
	conn.reads = []verifSRead{{data: stream[:cut]}, {data: stream[cut:]}}
	reportedWhileWaiting := -1
	conn.onRead = func(call int) {
		if call == 2 {
			reportedWhileWaiting = len(m.authenticated)
		}
	}
	dialer := &verifDialer{conn: target}
	h := NewStreamHandler(NewShadowsocksStreamAuthenticator(cl, nil, nil, nil), tcpReadTimeout)
	h.SetTargetDialer(dialer)
	h.Handle(contextBackground(), conn, m)
	verifAssert("C17.early-auth.reported-while-the-address-is-awaited|C15.early-auth.reported-while-the-address-is-awaited", reportedWhileWaiting == 1)
	verifAssert("C17.early-auth.reported-once-under-its-key|C15.early-auth.reported-once-under-its-key", len(m.authenticated) == 1 && m.authenticated[0] == "id-0")
	if damaged {
		verifAssert("C15.early-auth.damaged-address-status", len(m.closed) == 1 && m.closed[0] == "ERR_READ_ADDRESS" && len(dialer.dials) == 0)
	} else {
		verifAssert("C15.early-auth.served", len(m.closed) == 1 && m.closed[0] == "OK" && string(target.written) == "xy")
	}
	verifReach("C17.early-auth.damaged", damaged)
}

// every form of target address (IPv4, IPv6, host names from one letter to the longest): the
// address named is the one dialed, and the target receives exactly the plaintext that follows
// the address header, whether it shared the first chunk with the header or came in its own
func VH_C02_address_forms() {
	cl, specs, entries := verifMakeList(1, 1, false)
	key := verifKey(specs[0].cipher, verifSecrets[specs[0].secret])
	names := []string{"x", "ai", "a.b", "e.io", "example.com", "a-rather-long-name-of-a-host.with-several-labels.example.org"}
	var header []byte
	wantDial := ""
	switch form := verifChoice("form", 2+len(names)); form {
	case 0:
		header = []byte{1, 93, 184, 216, 34, 0, 80}
		wantDial = "93.184.216.34:80"
	case 1:
		header = []byte{4, 0x20, 0x01, 0x0d, 0xb8, 0, 0, 0, 0, 0, 0, 0, 0, 0, 0, 0, 1, 0, 80}
		wantDial = "[2001:db8::1]:80"
	default:
		name := names[form-2]
		header = append([]byte{3, byte(len(name))}, name...)
		header = append(header, 0, 80)
		wantDial = name + ":80"
	}
	data := verifBytes("payload", 3)
	var chunks [][]byte
	if verifFlag("coalesced") {
		chunks = [][]byte{append(append([]byte{}, header...), data...)}
	} else {
		chunks = [][]byte{header, data}
	}
	stream := verifClientStream(key, chunks...)
	verifAssume(!entries[0].SaltGenerator.IsServerSalt(stream[:key.SaltSize()]))
	conn := &verifStreamConn{name: "client", remote: &net.TCPAddr{IP: net.IPv4(203, 0, 113, 5), Port: 50000}}
	conn.reads = []verifSRead{{data: stream}}
	// (a transport that does not support deadlines is still a connection to serve)
	conn.deadlineUnsupported = verifFlag("transport-without-deadlines")
	target := &verifStreamConn{name: "target", remote: &net.TCPAddr{IP: net.IPv4(93, 184, 216, 34), Port: 80}}
	dialer := &verifDialer{conn: target}
	h := NewStreamHandler(NewShadowsocksStreamAuthenticator(cl, nil, nil, nil), tcpReadTimeout)
	h.SetTargetDialer(dialer)
	m := &verifTCPMetrics{}
	h.Handle(context.Background(), conn, m)
	verifAssert("C01.forms.authenticated-under-its-key", len(m.authenticated) == 1 && m.authenticated[0] == "id-0")
	verifAssert("C02.forms.dialed-the-named-address", len(dialer.dials) == 1 && dialer.dials[0] == wantDial)
	verifAssert("C02.forms.payload-intact", len(target.written) == 3 && verifBytesEq(target.written, data))
	verifAssert("C02.forms.closed-ok", len(m.closed) == 1 && m.closed[0] == "OK")
	verifReach("C02.forms.done", true)
}

// a chunk with an empty payload is a valid chunk, not the end of the stream: what the client sends
// after it still reaches the target, and the target sees the end only after all of it
func VH_C02_empty_chunk_mid_stream() {
	cl, specs, entries := verifMakeList(1, 1, false)
	key := verifKey(specs[0].cipher, verifSecrets[specs[0].secret])
	d1, d2 := verifBytes("d1", 2), verifBytes("d2", 3)
	chunks := [][]byte{{1, 93, 184, 216, 34, 0, 80}}
	at := verifChoice("empty-chunk-at", 3) // right after the header, between the data chunks, at the end
	if at == 0 {
		chunks = append(chunks, []byte{})
	}
	chunks = append(chunks, d1)
	if at == 1 {
		chunks = append(chunks, []byte{})
	}
	chunks = append(chunks, d2)
	if at == 2 {
		chunks = append(chunks, []byte{})
	}
	stream := verifClientStreamRaw(key, chunks...)
	verifAssume(!entries[0].SaltGenerator.IsServerSalt(stream[:key.SaltSize()]))
	var glog []string
	conn := &verifStreamConn{name: "client", glog: &glog, remote: &net.TCPAddr{IP: net.IPv4(203, 0, 113, 5), Port: 50000}}
	conn.reads = []verifSRead{{data: stream}}
	target := &verifStreamConn{name: "target", glog: &glog, remote: &net.TCPAddr{IP: net.IPv4(93, 184, 216, 34), Port: 80}}
	dialer := &verifDialer{conn: target}
	h := NewStreamHandler(NewShadowsocksStreamAuthenticator(cl, nil, nil, nil), tcpReadTimeout)
	h.SetTargetDialer(dialer)
	m := &verifTCPMetrics{}
	h.Handle(context.Background(), conn, m)
	want := append(append([]byte{}, d1...), d2...)
	verifAssert("C02.empty-chunk.everything-after-it-is-relayed", len(target.written) == 5 && verifBytesEq(target.written, want))
	verifAssert("C02.empty-chunk.target-fin-after-client-eof", verifIndexStr(glog, "client:ReadEnd") >= 0 && verifIndexStr(glog, "client:ReadEnd") < verifIndexStr(glog, "target:CloseWrite"))
	verifAssert("C02.empty-chunk.closed-ok", len(m.closed) == 1 && m.closed[0] == "OK")
	verifReach("C02.empty-chunk.done", true)
}

// each chunk sealed as given, also an empty one (the SDK's Writer skips empty writes)
func verifClientStreamRaw(key *shadowsocks.EncryptionKey, chunks ...[]byte) []byte {
	salt := make([]byte, key.SaltSize())
	verifFixedSaltGen{6}.GetSalt(salt)
	aead, err := key.NewAEAD(salt)
	if err != nil {
		panic(err)
	}
	out := append([]byte{}, salt...)
	nonce := make([]byte, aead.NonceSize())
	inc := func() {
		for i := range nonce {
			nonce[i]++
			if nonce[i] != 0 {
				break
			}
		}
	}
	for _, c := range chunks {
		out = aead.Seal(out, nonce, []byte{byte(len(c) >> 8), byte(len(c))}, nil)
		inc()
		out = aead.Seal(out, nonce, c, nil)
		inc()
	}
	return out
}

// the target answers in full and goes away while the client is still uploading; the client sends
// two more chunks and then ends its stream. The answer is delivered intact, and the client's
// socket is not closed over upload bytes nobody read (the kernel would reset the connection and
// the client would lose the part of the answer it had not read yet)
func VH_C02_target_hangs_up_during_upload() {
	cl, specs, entries := verifMakeList(1, 1, false)
	key := verifKey(specs[0].cipher, verifSecrets[specs[0].secret])
	first := append([]byte{1, 93, 184, 216, 34, 0, 80}, verifBytes("c", 2)...)
	more := 1 + verifChoice("more-chunks", 2)
	chunks := [][]byte{first}
	for i := 0; i < more; i++ {
		chunks = append(chunks, verifBytes("c", 2))
	}
	stream := verifClientStream(key, chunks...)
	verifAssume(!entries[0].SaltGenerator.IsServerSalt(stream[:key.SaltSize()]))
	conn := &verifStreamConn{name: "client", remote: &net.TCPAddr{IP: net.IPv4(203, 0, 113, 5), Port: 50000}}
	// the chunks arrive one by one
	cut := key.SaltSize() + 2 + 16 + len(first) + 16
	conn.reads = []verifSRead{{data: stream[:cut]}}
	for i := 0; i < more; i++ {
		conn.reads = append(conn.reads, verifSRead{data: stream[cut : cut+2+16+2+16]})
		cut += 2 + 16 + 2 + 16
	}
	target := &verifStreamConn{name: "target", remote: &net.TCPAddr{IP: net.IPv4(93, 184, 216, 34), Port: 80}}
	back := verifBytes("t", 3)
	target.reads = []verifSRead{{data: back}}
	target.writeBrokenFrom = 2 // it took the first chunk, answered and closed
	h := NewStreamHandler(NewShadowsocksStreamAuthenticator(cl, nil, nil, nil), tcpReadTimeout)
	h.SetTargetDialer(&verifDialer{conn: target})
	m := &verifTCPMetrics{}
	h.Handle(context.Background(), conn, m)
	verifQuiesce()
	r := shadowsocks.NewReader(bytes.NewReader(conn.written), key)
	got, err := io.ReadAll(r)
	verifAssert("C02.target-hangup.answer-intact", err == nil && len(got) == len(back) && verifBytesEq(got, back))
	verifAssert("C02.target-hangup.client-closed-once", conn.closed == 1)
	verifAssert("C02.target-hangup.client-not-reset-over-unread-upload", conn.closedOverUnread == 0)
	verifAssert("C15.target-hangup.closed-once", len(m.closed) == 1)
	verifAssert("C18.target-hangup.no-goroutine-left", verifBlockedIn("proxyConnection") == 0)
	verifReach("C02.target-hangup.done", true)
}

package ipinfo

// C20 (classification half): every client address maps to exactly one location label decided by
// its class alone; non-global addresses never reach the database.

import (
	"errors"
	"net"
)

type verifDB struct {
	consulted int
	country   string
	asn       int
	fail      bool
	lastLen   int
}

func (d *verifDB) GetIPInfo(ip net.IP) (IPInfo, error) {
	d.consulted++
	d.lastLen = len(ip)
	info := IPInfo{CountryCode: CountryCode(d.country), ASN: ASN{Number: d.asn}}
	if d.fail {
		return info, errors.New("db failure")
	}
	return info, nil
}

func verifC20DB() *verifDB {
	d := &verifDB{asn: int(verifU16("asn")), fail: verifBool("dbfail")}
	switch verifChoice("country", 3) {
	case 0:
		d.country = ""
	case 1:
		d.country = "AA"
	case 2:
		d.country = "ZZ"
	}
	return d
}

// independent definition of "not global unicast" on the 32-bit value
func verifC20LocalV4(v uint32) bool {
	return verifAny(v == 0, v>>24 == 127, v>>16 == 0xA9FE, v>>28 == 0xE, v == 0xFFFFFFFF)
}

func verifC20Local(b []byte) bool {
	if len(b) == 4 {
		return verifC20LocalV4(uint32(b[0])<<24 | uint32(b[1])<<16 | uint32(b[2])<<8 | uint32(b[3]))
	}
	if len(b) != 16 {
		return true
	}
	var hi, mid uint32
	for i := 0; i < 10; i++ {
		hi |= uint32(b[i])
	}
	mid = uint32(b[10])<<8 | uint32(b[11])
	v := uint32(b[12])<<24 | uint32(b[13])<<16 | uint32(b[14])<<8 | uint32(b[15])
	mapped := verifAll(hi == 0, mid == 0xffff)
	allZero := verifAll(hi == 0, mid == 0, v == 0)
	loop := verifAll(hi == 0, mid == 0, v == 1)
	v6local := verifAny(allZero, loop, verifAll(b[0] == 0xfe, b[1]&0xc0 == 0x80), b[0] == 0xff)
	return verifAny(verifAll(mapped, verifC20LocalV4(v)), verifAll(!mapped, v6local))
}

func verifC20Check(tag string, local bool, db *verifDB, info IPInfo, err error) {
	got := string(info.CountryCode)
	if local {
		verifAssert("C20."+tag+".local-is-XL", got == "XL")
		verifAssert("C20."+tag+".local-not-sent-to-db", db.consulted == 0)
		verifAssert("C20."+tag+".local-no-error", err == nil)
		verifReach("C20."+tag+".local", true)
		return
	}
	verifAssert("C20."+tag+".global-db-consulted-once", db.consulted == 1)
	if db.fail {
		verifAssert("C20."+tag+".dberr-is-XD", got == "XD")
		verifReach("C20."+tag+".XD", true)
		return
	}
	if db.country == "" {
		verifAssert("C20."+tag+".empty-is-ZZ", got == "ZZ")
		verifReach("C20."+tag+".ZZ", true)
		return
	}
	verifAssert("C20."+tag+".db-answer", got == db.country)
	verifAssert("C20."+tag+".db-asn", info.ASN.Number == db.asn)
	verifReach("C20."+tag+".answer", true)
}

func VH_C20_ip() {
	db := verifC20DB()
	var ip net.IP
	switch verifChoice("iplen", 4) {
	case 0:
		ip = nil
	case 1:
		ip = net.IP(verifBytes("ip", 4))
	case 2:
		ip = net.IP(verifBytes("ip", 16))
	case 3:
		ip = net.IP(verifBytes("ip", 5))
	}
	if verifBool("disabled") {
		info, err := GetIPInfoFromIP(nil, ip)
		verifAssert("C20.ip.disabled-empty", info.CountryCode == "" && info.ASN.Number == 0 && err == nil)
		verifReach("C20.ip.disabled", true)
		return
	}
	info, err := GetIPInfoFromIP(db, ip)
	if ip == nil {
		verifAssert("C20.ip.nil-is-XA", info.CountryCode == "XA" && err != nil && db.consulted == 0)
		verifReach("C20.ip.XA", true)
		return
	}
	verifC20Check("ip", verifC20Local(ip), db, info, err)
}

type verifBadAddr struct{ s string }

func (a verifBadAddr) Network() string { return "x" }
func (a verifBadAddr) String() string  { return a.s }

func VH_C20_addr() {
	db := verifC20DB()
	var addr net.Addr
	var raw []byte
	parsable := true
	zone := ""
	if verifBool("zoned") {
		zone = "eth0"
	}
	port := int(verifU16("port"))
	switch verifChoice("kind", 7) {
	case 0:
		addr = nil
		parsable = false
	case 1:
		raw = verifBytes("ip", 4)
		addr = &net.UDPAddr{IP: net.IP(raw), Port: port}
	case 2:
		raw = verifBytes("ip", 16)
		// a zone names the interface, not the host: the address is classified by its IP
		addr = &net.UDPAddr{IP: net.IP(raw), Port: port, Zone: zone}
	case 3:
		raw = verifBytes("ip", 16)
		addr = &net.TCPAddr{IP: net.IP(raw), Port: port, Zone: zone}
	case 4:
		addr = verifBadAddr{"no-port-here"}
		parsable = false
	case 5:
		addr = verifBadAddr{"example.com:443"}
		parsable = false
	case 6:
		addr = verifBadAddr{"10.1.2.3:443"}
		raw = []byte{10, 1, 2, 3}
	}
	var m IPInfoMap
	disabled := verifBool("disabled")
	if !disabled {
		m = db
	}
	info, err := GetIPInfoFromAddr(m, addr)
	if !parsable {
		verifAssert("C20.addr.unparsable-is-XA", info.CountryCode == "XA" && err != nil && db.consulted == 0)
		verifReach("C20.addr.XA", true)
		return
	}
	if disabled {
		verifAssert("C20.addr.disabled-empty", info.CountryCode == "" && info.ASN.Number == 0 && err == nil)
		verifReach("C20.addr.disabled", true)
		return
	}
	verifC20Check("addr", verifC20Local(raw), db, info, err)
}

package ipinfo

// C20 (classification half): every client address maps to exactly one location label decided by
// its class alone; non-global addresses never reach the database.

import (
	"errors"
	"net"
)

type verifDB struct {
	consulted int
	country   string
	asn       int
	fail      bool
	lastLen   int
}

func (d *verifDB) GetIPInfo(ip net.IP) (IPInfo, error) {
	d.consulted++
	d.lastLen = len(ip)
	info := IPInfo{CountryCode: CountryCode(d.country), ASN: ASN{Number: d.asn}}
	if d.fail {
		return info, errors.New("db failure")
	}
	return info, nil
}

func verifC20DB() *verifDB {
	d := &verifDB{asn: int(verifU16("asn")), fail: verifBool("dbfail")}
	switch verifChoice("country", 3) {
	case 0:
		d.country = ""
	case 1:
		d.country = "AA"
	case 2:
		d.country = "ZZ"
	}
	return d
}

// independent definition of "not global unicast" on the 32-bit value
func verifC20LocalV4(v uint32) bool {
	return verifAny(v == 0, v>>24 == 127, v>>16 == 0xA9FE, v>>28 == 0xE, v == 0xFFFFFFFF)
}

func verifC20Local(b []byte) bool {
	if len(b) == 4 {
		return verifC20LocalV4(uint32(b[0])<<24 | uint32(b[1])<<16 | uint32(b[2])<<8 | uint32(b[3]))
	}
	if len(b) != 16 {
		return true
	}
	var hi, mid uint32
	for i := 0; i < 10; i++ {
		hi |= uint32(b[i])
	}
	mid = uint32(b[10])<<8 | uint32(b[11])
	v := uint32(b[12])<<24 | uint32(b[13])<<16 | uint32(b[14])<<8 | uint32(b[15])
	mapped := verifAll(hi == 0, mid == 0xffff)
	allZero := verifAll(hi == 0, mid == 0, v == 0)
	loop := verifAll(hi == 0, mid == 0, v == 1)
	v6local := verifAny(allZero, loop, verifAll(b[0] == 0xfe, b[1]&0xc0 == 0x80), b[0] == 0xff)
	return verifAny(verifAll(mapped, verifC20LocalV4(v)), verifAll(!mapped, v6local))
}

func verifC20Check(tag string, local bool, db *verifDB, info IPInfo, err error) {
	got := string(info.CountryCode)
	if local {
		verifAssert("C20."+tag+".local-is-XL", got == "XL")
		verifAssert("C20."+tag+".local-not-sent-to-db", db.consulted == 0)
		verifAssert("C20."+tag+".local-no-error", err == nil)
		verifReach("C20."+tag+".local", true)
		return
	}
	verifAssert("C20."+tag+".global-db-consulted-once", db.consulted == 1)
	if db.fail {
		verifAssert("C20."+tag+".dberr-is-XD", got == "XD")
		verifReach("C20."+tag+".XD", true)
		return
	}
	if db.country == "" {
		verifAssert("C20."+tag+".empty-is-ZZ", got == "ZZ")
		verifReach("C20."+tag+".ZZ", true)
		return
	}
	verifAssert("C20."+tag+".db-answer", got == db.country)
	verifAssert("C20."+tag+".db-asn", info.ASN.Number == db.asn)
	verifReach("C20."+tag+".answer", true)
}

func VH_C20_ip() {
	db := verifC20DB()
	var ip net.IP
	switch verifChoice("iplen", 4) {
	case 0:
		ip = nil
	case 1:
		ip = net.IP(verifBytes("ip", 4))
	case 2:
		ip = net.IP(verifBytes("ip", 16))
	case 3:
		ip = net.IP(verifBytes("ip", 5))
	}
	if verifBool("disabled") {
		info, err := GetIPInfoFromIP(nil, ip)
		verifAssert("C20.ip.disabled-empty", info.CountryCode == "" && info.ASN.Number == 0 && err == nil)
		verifReach("C20.ip.disabled", true)
		return
	}
	info, err := GetIPInfoFromIP(db, ip)
	if ip == nil {
		verifAssert("C20.ip.nil-is-XA", info.CountryCode == "XA" && err != nil && db.consulted == 0)
		verifReach("C20.ip.XA", true)
		return
	}
	verifC20Check("ip", verifC20Local(ip), db, info, err)
}

type verifBadAddr struct{ s string }

func (a verifBadAddr) Network() string { return "x" }
func (a verifBadAddr) String() string  { return a.s }

func VH_C20_addr() {
	db := verifC20DB()
	var addr net.Addr
	var raw []byte
	parsable := true
	zone := ""
	if verifBool("zoned") {
		zone = "eth0"
	}
	port := int(verifU16("port"))
	switch verifChoice("kind", 7) {
	case 0:
		addr = nil
		parsable = false
	case 1:
		raw = verifBytes("ip", 4)
		addr = &net.UDPAddr{IP: net.IP(raw), Port: port}
	case 2:
		raw = verifBytes("ip", 16)
		// a zone names the interface, not the host: the address is classified by its IP
		addr = &net.UDPAddr{IP: net.IP(raw), Port: port, Zone: zone}
	case 3:
		raw = verifBytes("ip", 16)
		addr = &net.TCPAddr{IP: net.IP(raw), Port: port, Zone: zone}
	case 4:
		addr = verifBadAddr{"no-port-here"}
		parsable = false
	case 5:
		addr = verifBadAddr{"example.com:443"}
		parsable = false
	case 6:
		addr = verifBadAddr{"10.1.2.3:443"}
		raw = []byte{10, 1, 2, 3}
	}
	var m IPInfoMap
	disabled := verifBool("disabled")
	if !disabled {
		m = db
	}
	info, err := GetIPInfoFromAddr(m, addr)
	if !parsable {
		verifAssert("C20.addr.unparsable-is-XA", info.CountryCode == "XA" && err != nil && db.consulted == 0)
		verifReach("C20.addr.XA", true)
		return
	}
	if disabled {
		verifAssert("C20.addr.disabled-empty", info.CountryCode == "" && info.ASN.Number == 0 && err == nil)
		verifReach("C20.addr.disabled", true)
		return
	}
	verifC20Check("addr", verifC20Local(raw), db, info, err)
}

// address texts as a non-IP net.Addr implementation may print them (a portless IPv6 text, too many
// colons, missing brackets ...): what cannot be split into host and port, or whose host is not an
// IP address, is XA and is never shown to the database; the rest is classified by its IP
func VH_C20_addr_texts() {
	type tc struct {
		text     string
		parsable bool
		raw      []byte
	}
	v6 := func(hi uint16, lo uint16) []byte {
		b := make([]byte, 16)
		b[0], b[1], b[2], b[3] = 0x20, 0x01, 0x0d, 0xb8
		b[12], b[13] = byte(hi>>8), byte(hi)
		b[14], b[15] = byte(lo>>8), byte(lo)
		return b
	}
	ll := make([]byte, 16)
	ll[0], ll[1], ll[15] = 0xfe, 0x80, 1
	cases := []tc{
		{"2001:db8::5:1", false, nil},
		{"2001:db8::1:443", false, nil},
		{"fe80::1:2", false, nil},
		{"::1:8080", false, nil},
		{"2001:db8:0:0:0:0:0:5:443", false, nil},
		{"1.2.3.4:80:90", false, nil},
		{"[::1]", false, nil},
		{"[::1]x:80", false, nil},
		{"[::1", false, nil},
		{"1.2.3.4", false, nil},
		{":80", false, nil},
		{"", false, nil},
		{"[2001:db8::5]:1", true, v6(0, 5)},
		{"[2001:db8::5:1]:443", true, v6(5, 1)},
		{"[fe80::1%eth0]:80", true, ll},
		{"93.184.216.34:443", true, []byte{93, 184, 216, 34}},
	}
	c := cases[verifChoice("text", len(cases))]
	db := verifC20DB()
	info, err := GetIPInfoFromAddr(db, verifBadAddr{c.text})
	if !c.parsable {
		verifAssert("C20.texts.unparsable-is-XA", info.CountryCode == "XA" && err != nil)
		verifAssert("C20.texts.unparsable-not-sent-to-db", db.consulted == 0)
		verifReach("C20.texts.XA", true)
		return
	}
	verifC20Check("texts", verifC20Local(c.raw), db, info, err)
}

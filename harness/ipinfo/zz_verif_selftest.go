package ipinfo

import "net"

func VH_ST_ipinfo() {
	r := &verifRng{s: verifSeed() + 13}
	db := &verifDB{country: "AA", asn: 64500}
	for i := 0; i < 30; i++ {
		var addr net.Addr
		switch i % 4 {
		case 0:
			addr = &net.UDPAddr{IP: net.IP(r.bytes(4)), Port: int(r.next() % 65536)}
		case 1:
			addr = &net.TCPAddr{IP: net.IP(r.bytes(16)), Port: int(r.next() % 65536)}
		case 2:
			addr = &net.TCPAddr{IP: net.IP(r.bytes(16)), Port: 1, Zone: "eth0"}
		case 3:
			addr = verifBadAddr{[]string{"x", "example.com:1", "127.0.0.1:1", "10.1.1.1:5"}[(i/4)%4]}
		}
		db.fail = i%5 == 0
		info, err := GetIPInfoFromAddr(db, addr)
		verifRecord("country", verifStrSum(string(info.CountryCode)))
		verifRecord("err", verifB2U(err != nil))
	}
	verifRecord("consulted", uint64(db.consulted))
}

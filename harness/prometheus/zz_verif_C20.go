package prometheus

// C20 / C15 / C16 (Prometheus side) through the exported collector API only: these harnesses do not
// name internal types, so they survive refactorings of the collectors' internals.
import (
	"errors"
	"net"
	"net/netip"
	"sync"
	"time"

	"github.com/Jigsaw-Code/outline-ss-server/ipinfo"
	"github.com/Jigsaw-Code/outline-ss-server/service/metrics"
	"github.com/prometheus/client_golang/prometheus"
)

// keep the imports used whatever this file ends up holding
var _ = errors.New
var _ net.IP
var _ netip.Addr
var _ sync.Mutex
var _ time.Duration
var _ ipinfo.IPInfo
var _ metrics.ProxyMetrics
var _ prometheus.Metric

func VH_C20_labels() {
	verifInstallClock(1 << 41)
	db := &verifInfoDB{info: ipinfo.IPInfo{CountryCode: "AA", ASN: ipinfo.ASN{Number: 64500, Organization: "Example Org"}}, fail: verifFlag("dbfail")}
	var m2 ipinfo.IPInfoMap = db
	if verifFlag("no-db") {
		m2 = nil
	}
	m, err := NewServiceMetrics(m2)
	verifAssert("C20.labels.built", err == nil)
	caddr := verifClientTCPAddr()
	conn := &verifConn{remote: caddr, local: &net.TCPAddr{IP: net.IPv4(192, 0, 2, 1), Port: 443}}
	tcm := m.AddOpenTCPConnection(conn)
	if verifFlag("authenticated") {
		tcm.AddAuthenticated("key-1")
	} else {
		tcm.AddProbe("ERR_CIPHER", "timeout", 50)
	}
	verifAdvance()
	tcm.AddClosed("OK", metrics.ProxyMetrics{ClientProxy: 10, ProxyTarget: 20, TargetProxy: 30, ProxyClient: 40}, 5*time.Second)
	uaddr := &net.UDPAddr{IP: caddr.IP, Port: caddr.Port}
	ucm := m.AddUDPNatEntry(uaddr, "key-1")
	ucm.AddPacketFromClient("OK", 100, 60)
	ucm.AddPacketFromTarget("OK", 70, 110)
	verifAdvance()
	ucm.RemoveNatEntry()
	m.AddCipherSearch("tcp", true, time.Millisecond)
	m.AddCipherSearch("udp", false, time.Millisecond)
	verifAdvance()
	labels := verifAllLabelValues(m)
	verifAssert("C20.labels.something-exported", len(labels) > 10)
	for _, l := range labels {
		verifAssert("C20.labels.no-client-address", !verifLabelLeaksAddr(l, caddr))
	}
	verifReach("C20.labels.done", true)
}

// C15 Prometheus side: one open, one close with the given status and key, byte counters per
// direction equal the four numbers reported
func VH_C15_prom() {
	verifInstallClock(1 << 41)
	m, _ := NewServiceMetrics(nil)
	conn := &verifConn{remote: &net.TCPAddr{IP: net.IPv4(203, 0, 113, 5), Port: 50000}, local: &net.TCPAddr{IP: net.IPv4(192, 0, 2, 1), Port: 443}}
	loc := ""
	if verifFlag("client-without-ip-address") {
		// a connection handed over by a front end on a Unix socket (or any transport whose
		// remote address is not IP:port): it is counted like every other connection
		conn.remote = &net.UnixAddr{Name: "/run/front.sock", Net: "unix"}
		// (which location code such a client gets is not the subject here: C20)
		loc = m.getIPInfoFromAddr(conn.remote).CountryCode.String()
	}
	var d metrics.ProxyMetrics
	d.ClientProxy, d.ProxyTarget, d.TargetProxy, d.ProxyClient = verifI64("cp"), verifI64("pt"), verifI64("tp"), verifI64("pc")
	verifAssume(d.ClientProxy >= 0 && d.ProxyTarget >= 0 && d.TargetProxy >= 0 && d.ProxyClient >= 0)
	verifAssume(d.ClientProxy < 1<<40 && d.ProxyTarget < 1<<40 && d.TargetProxy < 1<<40 && d.ProxyClient < 1<<40)
	status := []string{"OK", "ERR_CIPHER", "ERR_RELAY_TARGET"}[verifChoice("status", 3)]
	tcm := m.AddOpenTCPConnection(conn)
	key := ""
	if status != "ERR_CIPHER" {
		key = "key-7"
		tcm.AddAuthenticated(key)
	} else {
		tcm.AddProbe(status, "eof", d.ClientProxy)
	}
	verifAdvance()
	tcm.AddClosed(status, d, 3*time.Second)
	t := m.tcpServiceMetrics
	verifAssert("C15.prom.opened-once", verifCounterValue(t.openConnections, "int", loc, "", "") == 1)
	verifAssert("C15.prom.closed-once", verifCounterValue(t.closedConnections, "int", loc, "", "", status, key) == 1)
	pk := t.proxyCollector.dataBytesPerKey
	verifAssert("C15.prom.bytes-c>p", verifCounterValue(pk, "int", "c>p", key) == d.ClientProxy)
	verifAssert("C15.prom.bytes-p>t", verifCounterValue(pk, "int", "p>t", key) == d.ProxyTarget)
	verifAssert("C15.prom.bytes-p<t", verifCounterValue(pk, "int", "p<t", key) == d.TargetProxy)
	verifAssert("C15.prom.bytes-c<p", verifCounterValue(pk, "int", "c<p", key) == d.ProxyClient)
	pl := t.proxyCollector.dataBytesPerLocation
	verifAssert("C15.prom.loc-bytes-c>p", verifCounterValue(pl, "int", "c>p", loc, "", "") == d.ClientProxy)
	verifAssert("C15.prom.loc-bytes-c<p", verifCounterValue(pl, "int", "c<p", loc, "", "") == d.ProxyClient)
	verifReach("C15.prom.done", true)
}

// C16 Prometheus side
func VH_C16_prom() {
	verifInstallClock(1 << 41)
	m, _ := NewServiceMetrics(nil)
	ucm := m.AddUDPNatEntry(&net.UDPAddr{IP: net.IPv4(203, 0, 113, 5), Port: 40000}, "key-3")
	a, b := verifI64("cp"), verifI64("pt")
	c, d := verifI64("tp"), verifI64("pc")
	verifAssume(a >= 0 && b >= 0 && c >= 0 && d >= 0 && a < 1<<32 && b < 1<<32 && c < 1<<32 && d < 1<<32)
	ucm.AddPacketFromClient("OK", a, b)
	ucm.AddPacketFromClient("ERR_CIPHER", 33, 0)
	ucm.AddPacketFromTarget("OK", c, d)
	verifAdvance()
	ucm.RemoveNatEntry()
	u := m.udpServiceMetrics
	verifAssert("C16.prom.added-once", verifCounterScalar(u.addedNatEntries) == 1)
	verifAssert("C16.prom.removed-once", verifCounterScalar(u.removedNatEntries) == 1)
	verifAssert("C16.prom.packets-ok", verifCounterValue(u.packetsFromClientPerLocation, "int", "", "", "", "OK") == 1)
	verifAssert("C16.prom.packets-err", verifCounterValue(u.packetsFromClientPerLocation, "int", "", "", "", "ERR_CIPHER") == 1)
	pk := u.proxyCollector.dataBytesPerKey
	verifAssert("C16.prom.bytes-c>p", verifCounterValue(pk, "int", "c>p", "key-3") == a+33)
	verifAssert("C16.prom.bytes-p>t", verifCounterValue(pk, "int", "p>t", "key-3") == b)
	verifAssert("C16.prom.bytes-p<t", verifCounterValue(pk, "int", "p<t", "key-3") == c)
	verifAssert("C16.prom.bytes-c<p", verifCounterValue(pk, "int", "c<p", "key-3") == d)
	verifReach("C16.prom.done", true)
}

// non-interference (2-safety): two clients that differ only in address and receive the same
// location info produce exactly the same exported label values
var verifC20Values []int64

func verifC20Scenario(db *verifInfoDB, caddr *net.TCPAddr, authenticated bool) []string {
	verifSinkReset() // the model's sink log is per run, not per collector
	verifInstallClock(1 << 41)
	m, _ := NewServiceMetrics(db)
	conn := &verifConn{remote: caddr, local: &net.TCPAddr{IP: net.IPv4(192, 0, 2, 1), Port: 443}}
	tcm := m.AddOpenTCPConnection(conn)
	if authenticated {
		tcm.AddAuthenticated("key-1")
	} else {
		tcm.AddProbe("ERR_CIPHER", "timeout", 50)
	}
	verifClockNs += 1000
	tcm.AddClosed("OK", metrics.ProxyMetrics{ClientProxy: 10, ProxyTarget: 20, TargetProxy: 30, ProxyClient: 40}, 5*time.Second)
	ucm := m.AddUDPNatEntry(&net.UDPAddr{IP: caddr.IP, Port: caddr.Port}, "key-1")
	ucm.AddPacketFromClient("OK", 100, 60)
	ucm.AddPacketFromTarget("OK", 70, 110)
	verifClockNs += 1000
	ucm.RemoveNatEntry()
	verifClockNs += 1000
	verifC20Values = verifAllValues(m)
	return verifAllLabelValues(m)
}

func VH_C20_noninterference() {
	db := &verifInfoDB{info: ipinfo.IPInfo{CountryCode: "AA", ASN: ipinfo.ASN{Number: 64500, Organization: "Example Org"}}}
	a := verifClientTCPAddr()
	b := verifClientTCPAddr()
	verifAssume(a.Port != b.Port && a.IP[3] != b.IP[3])
	auth := verifFlag("authenticated")
	la := verifC20Scenario(db, a, auth)
	va := verifC20Values
	lb := verifC20Scenario(db, b, auth)
	vb := verifC20Values
	verifAssert("C20.noninterference.same-number-of-samples", len(va) == len(vb))
	for i := 0; i < len(va) && i < len(vb); i++ {
		verifAssert("C20.noninterference.same-values", va[i] == vb[i])
	}
	verifAssert("C20.noninterference.same-shape", len(la) == len(lb))
	for i := 0; i < len(la) && i < len(lb); i++ {
		verifAssert("C20.noninterference.same-labels", la[i] == lb[i])
	}
	verifReach("C20.noninterference.done", true)
}

// the location of every client is the database's answer for that very address, whatever other
// clients (neighbours in the same network included) were seen before
func VH_C20_answer_per_address() {
	db := &verifPerAddrDB{}
	m, _ := NewServiceMetrics(db)
	lasts := []byte{4, 5, 8, 9, 6}
	n := 2 + verifChoice("clients", 2)
	for i := 0; i < n; i++ {
		last := lasts[verifChoice("last-byte", len(lasts))]
		third := byte(113)
		if verifFlag("other-network") {
			third = 114
		}
		var addr net.Addr = &net.TCPAddr{IP: net.IP{203, 0, third, last}, Port: 50000 + i}
		if verifFlag("udp") {
			addr = &net.UDPAddr{IP: net.IP{203, 0, third, last}, Port: 50000 + i}
		}
		got := m.getIPInfoFromAddr(addr)
		want, ok := verifWantInfo(last)
		switch {
		case !ok:
			verifAssert("C20.per-address.db-error-is-XD", got.CountryCode == "XD")
		case want.CountryCode == "":
			verifAssert("C20.per-address.no-country-is-ZZ", got.CountryCode == "ZZ" && got.ASN.Number == want.ASN.Number)
		default:
			verifAssert("C20.per-address.database-answer", got.CountryCode == want.CountryCode && got.ASN.Number == want.ASN.Number)
		}
	}
	verifReach("C20.per-address.done", true)
}

// C16: a datagram whose handling overlapped the end of its association is reported after the
// association's removal (the handler looked the association up before it expired): its bytes go
// under the key of that association, whatever other associations were created in the meantime
func VH_C16_late_report_after_removal() {
	verifInstallClock(1 << 41)
	m, _ := NewServiceMetrics(nil)
	a := m.AddUDPNatEntry(&net.UDPAddr{IP: net.IPv4(203, 0, 113, 5), Port: 40000}, "key-A")
	a.AddPacketFromClient("OK", 100, 40)
	verifAdvance()
	a.RemoveNatEntry()
	b := m.AddUDPNatEntry(&net.UDPAddr{IP: net.IPv4(203, 0, 113, 6), Port: 40001}, "key-B")
	late := verifI64("late-bytes")
	verifAssume(late > 0 && late < 1<<20)
	a.AddPacketFromClient("OK", late, 7) // the late report of the first association
	b.AddPacketFromClient("OK", 55, 11)
	verifAdvance()
	b.RemoveNatEntry()
	pk := m.udpServiceMetrics.proxyCollector.dataBytesPerKey
	verifAssert("C16.late-report.under-its-own-key", verifCounterValue(pk, "int", "c>p", "key-A") == 100+late && verifCounterValue(pk, "int", "c>p", "key-B") == 55)
	verifAssert("C16.late-report.payload-bytes", verifCounterValue(pk, "int", "p>t", "key-A") == 47 && verifCounterValue(pk, "int", "p>t", "key-B") == 11)
	verifReach("C16.late-report.done", true)
}

// the same client connects twice; the database failed the first time and answers the second
// time: the second connection carries the database's answer (each lookup is judged on its own)
func VH_C20_database_recovers() {
	db := &verifInfoDB{info: ipinfo.IPInfo{CountryCode: "AA", ASN: ipinfo.ASN{Number: 64500, Organization: "Example Org"}}}
	m, _ := NewServiceMetrics(db)
	var addr net.Addr = &net.TCPAddr{IP: net.IP{203, 0, 113, 5}, Port: 50000}
	if verifFlag("udp") {
		addr = &net.UDPAddr{IP: net.IP{203, 0, 113, 5}, Port: 50000}
	}
	db.fail = true
	first := m.getIPInfoFromAddr(addr)
	verifAssert("C20.recovers.error-is-XD", first.CountryCode == "XD")
	db.fail = false
	second := m.getIPInfoFromAddr(addr)
	verifAssert("C20.recovers.then-the-database-answer", second.CountryCode == "AA" && second.ASN.Number == 64500)
	db.fail = true
	third := m.getIPInfoFromAddr(addr)
	verifAssert("C20.recovers.error-again-is-XD", third.CountryCode == "XD")
	verifReach("C20.recovers.done", true)
}

// a datagram of an association that was already removed is still accounted through that
// association's handle (the packet loop holds it): it is exported under the location and key of
// ITS client, whatever association was opened in the meantime
func VH_C20_late_report_keeps_its_location() {
	verifInstallClock(1 << 41)
	m, _ := NewServiceMetrics(&verifPerAddrDB{})
	rounds := 1
	if verifNative() {
		rounds = 20
	}
	var lateTotal int64
	late := verifI64("late-bytes")
	verifAssume(late > 0 && late < 1<<20)
	for r := 0; r < rounds; r++ {
		a := m.AddUDPNatEntry(&net.UDPAddr{IP: net.IPv4(203, 0, 113, 4), Port: 40000}, "key-A") // location AA
		a.AddPacketFromClient("OK", 100, 40)
		a.RemoveNatEntry()
		b := m.AddUDPNatEntry(&net.UDPAddr{IP: net.IPv4(203, 0, 113, 5), Port: 40001}, "key-B") // location BB
		lateTotal += late
		a.AddPacketFromClient("OK", late, 7)
		b.AddPacketFromClient("OK", 55, 11)
		b.RemoveNatEntry()
	}
	n := int64(rounds)
	pl := m.udpServiceMetrics.proxyCollector.dataBytesPerLocation
	verifAssert("C20.late-report.bytes-under-its-own-location",
		verifCounterValue(pl, "int", "c>p", "AA", "64500", "Org-even") == 100*n+lateTotal &&
			verifCounterValue(pl, "int", "c>p", "BB", "64501", "Org-odd") == 55*n)
	pk := m.udpServiceMetrics.proxyCollector.dataBytesPerKey
	verifAssert("C20.late-report.bytes-under-its-own-key|C16.late-report.bytes-under-its-own-key",
		verifCounterValue(pk, "int", "c>p", "key-A") == 100*n+lateTotal && verifCounterValue(pk, "int", "c>p", "key-B") == 55*n)
	pp := m.udpServiceMetrics.packetsFromClientPerLocation
	verifAssert("C20.late-report.packets-under-its-own-location",
		verifCounterValue(pp, "int", "AA", "64500", "Org-even", "OK") == 2*n && verifCounterValue(pp, "int", "BB", "64501", "Org-odd", "OK") == n)
	verifReach("C20.late-report.done", true)
}

// two connections one after the other on the same service metrics, each authenticated or not:
// the second one's close, probe and bytes are exported under ITS key (none when it failed
// authentication), whatever the first one was
func VH_C15_prom_two_connections() {
	verifInstallClock(1 << 41)
	m, _ := NewServiceMetrics(nil)
	conn := &verifConn{remote: &net.TCPAddr{IP: net.IPv4(203, 0, 113, 5), Port: 50000}, local: &net.TCPAddr{IP: net.IPv4(192, 0, 2, 1), Port: 443}}
	type run struct {
		auth bool
		key  string
		cp   int64
	}
	runs := []run{{verifFlag("first-authenticated"), "key-1", 300}, {verifFlag("second-authenticated"), "key-2", 100}}
	for _, r := range runs {
		tcm := m.AddOpenTCPConnection(conn)
		var d metrics.ProxyMetrics
		d.ClientProxy = r.cp
		if r.auth {
			tcm.AddAuthenticated(r.key)
			verifAdvance()
			tcm.AddClosed("OK", d, time.Second)
		} else {
			tcm.AddProbe("ERR_CIPHER", "eof", r.cp)
			verifAdvance()
			tcm.AddClosed("ERR_CIPHER", d, time.Second)
		}
	}
	t := m.tcpServiceMetrics
	pk := t.proxyCollector.dataBytesPerKey
	var wantNoKey int64
	for _, r := range runs {
		if r.auth {
			verifAssert("C15.prom2.closed-under-its-key", verifCounterValue(t.closedConnections, "int", "", "", "", "OK", r.key) == 1)
			verifAssert("C15.prom2.bytes-under-its-key", verifCounterValue(pk, "int", "c>p", r.key) == r.cp)
		} else {
			wantNoKey += r.cp
			verifAssert("C15.prom2.unauthenticated-has-no-key", verifCounterValue(t.closedConnections, "int", "", "", "", "ERR_CIPHER", r.key) == 0 &&
				verifCounterValue(pk, "int", "c>p", r.key) == 0)
		}
	}
	nFailed := int64(0)
	for _, r := range runs {
		if !r.auth {
			nFailed++
		}
	}
	verifAssert("C15.prom2.failed-closed-without-key", verifCounterValue(t.closedConnections, "int", "", "", "", "ERR_CIPHER", "") == nFailed)
	verifAssert("C15.prom2.failed-bytes-without-key", verifCounterValue(pk, "int", "c>p", "") == wantNoKey)
	verifAssert("C15.prom2.opened", verifCounterValue(t.openConnections, "int", "", "", "") == 2)
	verifReach("C15.prom2.done", true)
}

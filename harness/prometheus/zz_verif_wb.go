package prometheus

// White-box harnesses that reach into tunnelTimeMetrics (IPKey, activeClients): kept apart so that
// a change of those internals only takes this file out.
import (
	"errors"
	"net"
	"net/netip"
	"sync"
	"time"

	"github.com/Jigsaw-Code/outline-ss-server/ipinfo"
	"github.com/Jigsaw-Code/outline-ss-server/service/metrics"
	"github.com/prometheus/client_golang/prometheus"
)

// keep the imports used whatever this file ends up holding
var _ = errors.New
var _ net.IP
var _ netip.Addr
var _ sync.Mutex
var _ time.Duration
var _ ipinfo.IPInfo
var _ metrics.ProxyMetrics
var _ prometheus.Metric

// two clients with different locations are active at a scrape: each one's time goes under its
// own key and its own location
func VH_C17_two_locations_at_a_scrape() {
	verifInstallClock(1 << 41)
	db := &verifPerAddrDB{}
	c := newTunnelTimeMetrics(db)
	k4 := IPKey{netip.AddrFrom4([4]byte{203, 0, 113, 4}), "even"} // database: AA / 64500
	k5 := IPKey{netip.AddrFrom4([4]byte{203, 0, 113, 5}), "odd"}  // database: BB / 64501
	c.startConnection(k4)
	d0 := verifAdvance()
	c.startConnection(k5)
	d1 := verifAdvance()
	c.Collect(make(chan prometheus_Metric, 16))
	verifAssert("C17.two-locations.per-key", verifEqNanos(verifCounterValue(c.tunnelTimePerKey, "ns", "even"), d0+d1) && verifEqNanos(verifCounterValue(c.tunnelTimePerKey, "ns", "odd"), d1))
	verifAssert("C17.two-locations.per-location", verifEqNanos(verifCounterValue(c.tunnelTimePerLocation, "ns", "AA", "64500", "Org-even"), d0+d1) && verifEqNanos(verifCounterValue(c.tunnelTimePerLocation, "ns", "BB", "64501", "Org-odd"), d1))
	verifAssert("C20.two-locations.each-client-under-its-own-location", verifEqNanos(verifCounterValue(c.tunnelTimePerLocation, "ns", "BB", "64501", "Org-odd"), d1))
	c.stopConnection(k4)
	c.stopConnection(k5)
	verifReach("C17.two-locations.done", true)
}

// a scrape that runs while a client's location is being looked up never exports that client
// under the label reserved for "lookup disabled"
func VH_C20_scrape_during_lookup() {
	verifInstallClock(1 << 41)
	db := &verifHookDB{info: ipinfo.IPInfo{CountryCode: "AA", ASN: ipinfo.ASN{Number: 64500, Organization: "Org"}}}
	c := newTunnelTimeMetrics(db)
	scrapes := 0
	db.hook = func() {
		// another goroutine (the scraper) can only run here if the collector's lock is free
		if c.mu.TryLock() {
			c.mu.Unlock()
			verifClockNs += 5000
			c.Collect(make(chan prometheus_Metric, 16))
			scrapes++
		}
	}
	k := IPKey{netip.AddrFrom4([4]byte{203, 0, 113, 5}), "k1"}
	c.startConnection(k)
	db.hook = nil
	verifClockNs += 7000
	c.stopConnection(k)
	verifAssert("C20.lookup.no-time-under-disabled-label", verifCounterValue(c.tunnelTimePerLocation, "ns", "", "", "") == 0)
	verifReach("C20.lookup.done", true)
}

// every client address maps to exactly one location label: the label used for a connection's
// own series and the one used for its tunnel time are the same, whatever the form of the address
// (4-byte, IPv4-mapped, IPv6, zoned link-local)
func VH_C20_one_label_per_client() {
	verifInstallClock(1 << 41)
	db := &verifInfoDB{info: ipinfo.IPInfo{CountryCode: "AA", ASN: ipinfo.ASN{Number: 64500, Organization: "Example Org"}}, fail: verifFlag("dbfail")}
	m, _ := NewServiceMetrics(db)
	var addr *net.TCPAddr
	switch verifChoice("form", 4) {
	case 0:
		addr = &net.TCPAddr{IP: net.IP{203, 0, 113, 5}, Port: 50000}
	case 1:
		addr = &net.TCPAddr{IP: net.IP{203, 0, 113, 5}.To16(), Port: 50000}
	case 2:
		addr = &net.TCPAddr{IP: net.ParseIP("2001:db8::5"), Port: 50000}
	case 3:
		addr = &net.TCPAddr{IP: net.ParseIP("fe80::1"), Port: 50000, Zone: "eth0"} // a client on the local link
	}
	connLabel := m.getIPInfoFromAddr(addr).CountryCode
	t := m.AddOpenTCPConnection(&verifConn{remote: addr, local: &net.TCPAddr{IP: net.IPv4(192, 0, 2, 1), Port: 443}})
	t.AddAuthenticated("k1")
	verifReach("C20.one-label.tunnel-tracked", len(m.tunnelTimeMetrics.activeClients) == 1)
	for _, c := range m.tunnelTimeMetrics.activeClients {
		verifAssert("C20.one-label.same-label-for-connection-and-tunnel-time", c.info.CountryCode == connLabel)
	}
	if addr.Zone != "" {
		verifAssert("C20.one-label.local-link-client-is-XL", connLabel == "XL")
	}
	t.AddClosed("OK", metrics.ProxyMetrics{}, time.Second)
	verifReach("C20.one-label.done", true)
}

package prometheus

import (
	"net"
	"time"

	"github.com/prometheus/client_golang/prometheus"
)

type prometheus_Metric = prometheus.Metric

type verifConn struct {
	remote, local net.Addr
}

func (c *verifConn) Read(b []byte) (int, error)         { return 0, nil }
func (c *verifConn) Write(b []byte) (int, error)        { return len(b), nil }
func (c *verifConn) Close() error                       { return nil }
func (c *verifConn) LocalAddr() net.Addr                { return c.local }
func (c *verifConn) RemoteAddr() net.Addr               { return c.remote }
func (c *verifConn) SetDeadline(t time.Time) error      { return nil }
func (c *verifConn) SetReadDeadline(t time.Time) error  { return nil }
func (c *verifConn) SetWriteDeadline(t time.Time) error { return nil }

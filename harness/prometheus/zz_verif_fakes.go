package prometheus

// Shared fakes and helpers of the prometheus harnesses (no references to collector internals
// other than the stubbable clock `now`).
import (
	"errors"
	"net"
	"net/netip"
	"sync"
	"time"

	"github.com/Jigsaw-Code/outline-ss-server/ipinfo"
	"github.com/Jigsaw-Code/outline-ss-server/service/metrics"
	"github.com/prometheus/client_golang/prometheus"
)

// keep the imports used whatever this file ends up holding
var _ = errors.New
var _ net.IP
var _ netip.Addr
var _ sync.Mutex
var _ time.Duration
var _ ipinfo.IPInfo
var _ metrics.ProxyMetrics
var _ prometheus.Metric

type prometheus_Metric = prometheus.Metric

type verifConn struct {
	remote, local net.Addr
}

func (c *verifConn) Read(b []byte) (int, error) { return 0, nil }

func (c *verifConn) Write(b []byte) (int, error) { return len(b), nil }

func (c *verifConn) Close() error { return nil }

func (c *verifConn) LocalAddr() net.Addr { return c.local }

func (c *verifConn) RemoteAddr() net.Addr { return c.remote }

func (c *verifConn) SetDeadline(t time.Time) error { return nil }

func (c *verifConn) SetReadDeadline(t time.Time) error { return nil }

func (c *verifConn) SetWriteDeadline(t time.Time) error { return nil }

var verifClockNs int64

func verifInstallClock(start int64) {
	verifClockNs = start
	now = func() time.Time { return verifTime(verifClockNs) }
}

func verifAdvance() int64 {
	// time moves in steps of 2^20 ns (about a millisecond), up to about 13 days at once: any time
	// that gets lost or counted twice is then far above the rounding of the float counters
	x := verifI64("dt")
	verifAssume(x >= 0 && x <= 1<<20)
	dt := x << 20
	verifClockNs += dt
	return dt
}

// a location database that fails for some lookups (each lookup fails or not, arbitrarily)
type verifFlakyDB struct{ lookups int }

func (d *verifFlakyDB) GetIPInfo(ip net.IP) (ipinfo.IPInfo, error) {
	d.lookups++
	if verifFlag("lookup-fails") {
		return ipinfo.IPInfo{}, errVerifDB
	}
	return ipinfo.IPInfo{CountryCode: "AA", ASN: ipinfo.ASN{Number: 64500, Organization: "Org"}}, nil
}

var errVerifDB = errors.New("db failure")

// a location database whose lookups take a moment (as an mmdb lookup does)
type verifSlowDB struct{}

func (verifSlowDB) GetIPInfo(ip net.IP) (ipinfo.IPInfo, error) {
	if verifNative() {
		time.Sleep(30 * time.Microsecond)
	}
	return ipinfo.IPInfo{CountryCode: "CA", ASN: ipinfo.ASN{Number: 64500, Organization: "Org"}}, nil
}

func verifPar(fs ...func()) {
	var wg sync.WaitGroup
	for _, f := range fs {
		wg.Add(1)
		f := f
		go func() {
			defer wg.Done()
			f()
		}()
	}
	wg.Wait()
}

type verifInfoDB struct {
	info ipinfo.IPInfo
	fail bool
}

func (d *verifInfoDB) GetIPInfo(ip net.IP) (ipinfo.IPInfo, error) {
	if d.fail {
		return d.info, errors.New("db failure")
	}
	return d.info, nil
}

var verifAllowedLabelNames = map[string]bool{"access_key": true, "location": true, "asn": true, "asorg": true,
	"status": true, "dir": true, "proto": true, "port": true, "error": true, "found_key": true, "version": true}

func verifClientTCPAddr() *net.TCPAddr {
	port := 1024 + int(verifU16("cport"))%60000
	if verifFlag("ipv6-client") {
		low := verifBytes("cip6", 4)
		return &net.TCPAddr{IP: net.IP{0x20, 0x01, 0x0d, 0xb8, 0x85, 0xa3, 0, 0, 0, 0, 0x8a, 0x2e, low[0], low[1], low[2], low[3]}, Port: port}
	}
	ip := verifBytes("cip", 4)
	verifAssume(ip[0] == 203 || ip[0] == 198) // some public client
	return &net.TCPAddr{IP: net.IP(ip), Port: port}
}

type verifHookDB struct {
	info ipinfo.IPInfo
	hook func()
}

func (d *verifHookDB) GetIPInfo(ip net.IP) (ipinfo.IPInfo, error) {
	if d.hook != nil {
		d.hook()
	}
	return d.info, nil
}

// a database that answers per address (by the parity of its last byte, with one address it
// fails on and one it has no country for)
type verifPerAddrDB struct {
	mu    sync.Mutex
	calls int
}

func verifWantInfo(last byte) (ipinfo.IPInfo, bool) {
	switch {
	case last == 9:
		return ipinfo.IPInfo{}, false
	case last == 8:
		return ipinfo.IPInfo{ASN: ipinfo.ASN{Number: 64508, Organization: "Org-8"}}, true
	case last%2 == 0:
		return ipinfo.IPInfo{CountryCode: "AA", ASN: ipinfo.ASN{Number: 64500, Organization: "Org-even"}}, true
	}
	return ipinfo.IPInfo{CountryCode: "BB", ASN: ipinfo.ASN{Number: 64501, Organization: "Org-odd"}}, true
}

func (d *verifPerAddrDB) GetIPInfo(ip net.IP) (ipinfo.IPInfo, error) {
	d.mu.Lock()
	d.calls++
	d.mu.Unlock()
	info, ok := verifWantInfo(ip[len(ip)-1])
	if !ok {
		return info, errors.New("db failure")
	}
	return info, nil
}

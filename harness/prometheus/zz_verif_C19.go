package prometheus

// C19 (collectors): traffic against scrapes.
import (
	"errors"
	"net"
	"net/netip"
	"sync"
	"time"

	"github.com/Jigsaw-Code/outline-ss-server/ipinfo"
	"github.com/Jigsaw-Code/outline-ss-server/service/metrics"
	"github.com/prometheus/client_golang/prometheus"
)

// keep the imports used whatever this file ends up holding
var _ = errors.New
var _ net.IP
var _ netip.Addr
var _ sync.Mutex
var _ time.Duration
var _ ipinfo.IPInfo
var _ metrics.ProxyMetrics
var _ prometheus.Metric

// the first two tunnels of a client start at the same moment: both are counted, and the client
// stays active until both are closed
func VH_C19_concurrent_first_tunnels() {
	for rep := 0; rep < verifRepeat(300); rep++ {
		verifBody_C19_first_tunnels()
	}
}

func verifBody_C19_first_tunnels() {
	verifRaceDetect(true)
	verifSched(2)
	c := newTunnelTimeMetrics(verifSlowDB{})
	k1 := IPKey{netip.AddrFrom4([4]byte{203, 0, 113, 5}), "k1"}
	verifPar(
		func() { c.startConnection(k1) },
		func() { c.startConnection(k1) },
	)
	c.mu.Lock()
	cl := c.activeClients[k1]
	n := 0
	if cl != nil {
		n = cl.connCount
	}
	c.mu.Unlock()
	verifAssert("C19.first-tunnels.equals-a-sequential-order", n == 2)
	verifAssert("C17.first-tunnels.both-counted", n == 2)
	c.stopConnection(k1)
	c.mu.Lock()
	left := len(c.activeClients)
	c.mu.Unlock()
	verifAssert("C17.first-tunnels.active-until-last-closes", left == 1)
	c.stopConnection(k1)
	verifReach("C19.first-tunnels.done", true)
}

func VH_C19_tunneltime() {
	for rep := 0; rep < verifRepeat(150); rep++ {
		verifBody_C19_tunneltime()
	}
}

func verifBody_C19_tunneltime() {
	verifRaceDetect(true)
	verifSched(1)
	base := time.Now()
	_ = base
	c := newTunnelTimeMetrics(nil)
	k1 := IPKey{netip.AddrFrom4([4]byte{203, 0, 113, 5}), "k1"}
	c.startConnection(k1)
	verifPar(
		func() { c.startConnection(k1) },
		func() { c.stopConnection(k1) },
		func() { c.Collect(make(chan prometheus_Metric, 16)) },
	)
	verifReach("C19.tunneltime.done", true)
}

// two connections report concurrently while a scrape runs
func VH_C19_connmetrics() {
	for rep := 0; rep < verifRepeat(150); rep++ {
		verifBody_C19_connmetrics()
	}
}

func verifBody_C19_connmetrics() {
	verifRaceDetect(true)
	verifSched(1)
	m, _ := NewServiceMetrics(nil)
	mk := func(port int) *verifConn {
		return &verifConn{remote: &net.TCPAddr{IP: net.IPv4(203, 0, 113, 5), Port: port}, local: &net.TCPAddr{IP: net.IPv4(192, 0, 2, 1), Port: 443}}
	}
	verifPar(
		func() {
			t := m.AddOpenTCPConnection(mk(50000))
			t.AddAuthenticated("k1")
			t.AddClosed("OK", metrics.ProxyMetrics{ClientProxy: 1}, time.Second)
		},
		func() {
			u := m.AddUDPNatEntry(&net.UDPAddr{IP: net.IPv4(203, 0, 113, 5), Port: 40000}, "k1")
			u.AddPacketFromClient("OK", 10, 5)
			u.RemoveNatEntry()
		},
		func() { m.Collect(make(chan prometheus_Metric, 64)) },
	)
	verifReach("C19.connmetrics.done", true)
}

// the last tunnel of a client closes while a scrape runs
func VH_C19_scrape_vs_last_close() {
	for rep := 0; rep < verifRepeat(150); rep++ {
		verifBody_C19_scrape_vs_last_close()
	}
}

func verifBody_C19_scrape_vs_last_close() {
	verifRaceDetect(true)
	verifSched(1)
	c := newTunnelTimeMetrics(nil)
	k1 := IPKey{netip.AddrFrom4([4]byte{203, 0, 113, 5}), "k1"}
	k2 := IPKey{netip.AddrFrom4([4]byte{203, 0, 113, 6}), "k1"}
	c.startConnection(k1)
	c.startConnection(k2)
	verifPar(
		func() { c.stopConnection(k1) },
		func() { c.Collect(make(chan prometheus_Metric, 16)) },
		func() { c.stopConnection(k2) },
	)
	verifReach("C19.scrape-vs-close.done", true)
}

// clients of two different networks (ASNs) report at the same time while a scrape runs: every
// exported series names an ASN together with ITS organisation, and each network's traffic is
// counted under its own labels
func VH_C19_two_asns_concurrently() {
	for rep := 0; rep < verifRepeat(400); rep++ {
		if !verifBody_C19_two_asns() {
			return
		}
	}
}

func verifBody_C19_two_asns() bool {
	verifRaceDetect(true)
	verifSched(1)
	m, _ := NewServiceMetrics(&verifPerAddrDB{})
	n := 1
	if verifNative() {
		n = 40
	}
	udp := func(last byte, key string) func() {
		return func() {
			for i := 0; i < n; i++ {
				u := m.AddUDPNatEntry(&net.UDPAddr{IP: net.IPv4(203, 0, 113, last), Port: 40000}, key)
				u.AddPacketFromClient("OK", 10, 5)
				u.RemoveNatEntry()
			}
		}
	}
	verifPar(
		udp(4, "k-even"),
		udp(5, "k-odd"),
		func() { m.Collect(make(chan prometheus_Metric, 256)) },
	)
	ok := true
	lvs := verifAllLabelValues(m)
	for i := 0; i+3 < len(lvs); i++ {
		if lvs[i] == "asn" && lvs[i+2] == "asorg" {
			pair := (lvs[i+1] == "64500" && lvs[i+3] == "Org-even") || (lvs[i+1] == "64501" && lvs[i+3] == "Org-odd") || (lvs[i+1] == "" && lvs[i+3] == "")
			verifAssert("C19.two-asns.asn-with-its-organisation|C20.two-asns.asn-with-its-organisation", pair)
			ok = ok && pair
		}
	}
	pp := m.udpServiceMetrics.packetsFromClientPerLocation
	counted := verifCounterValue(pp, "int", "AA", "64500", "Org-even", "OK") == int64(n) && verifCounterValue(pp, "int", "BB", "64501", "Org-odd", "OK") == int64(n)
	verifAssert("C19.two-asns.each-counted-under-its-own-labels", counted)
	// ... and so are the bytes, none lost to the scrape that ran meanwhile
	pk := m.udpServiceMetrics.proxyCollector.dataBytesPerKey
	bytesOK := verifCounterValue(pk, "int", "c>p", "k-even") == int64(10*n) && verifCounterValue(pk, "int", "p>t", "k-even") == int64(5*n) &&
		verifCounterValue(pk, "int", "c>p", "k-odd") == int64(10*n) && verifCounterValue(pk, "int", "p>t", "k-odd") == int64(5*n)
	verifAssert("C19.two-asns.bytes-all-counted|C16.two-asns.bytes-all-counted", bytesOK)
	counted = counted && bytesOK
	verifReach("C19.two-asns.done", true)
	return ok && counted
}

// two scrapes at the same time while a client has a tunnel open: its time is counted once
func VH_C19_two_scrapes_at_once() {
	for rep := 0; rep < verifRepeat(400); rep++ {
		if !verifBody_C19_two_scrapes() {
			return
		}
	}
}

func verifBody_C19_two_scrapes() bool {
	verifRaceDetect(true)
	verifSched(1)
	verifInstallClock(1 << 41)
	c := newTunnelTimeMetrics(nil)
	k1 := IPKey{netip.AddrFrom4([4]byte{203, 0, 113, 5}), "k1"}
	c.startConnection(k1)
	verifClockNs += 10 << 30 // about ten seconds later
	verifPar(
		func() { c.Collect(make(chan prometheus_Metric, 16)) },
		func() { c.Collect(make(chan prometheus_Metric, 16)) },
	)
	got := verifCounterValue(c.tunnelTimePerKey, "ns", "k1")
	ok := verifEqNanos(got, 10<<30)
	verifAssert("C19.two-scrapes.time-counted-once|C17.two-scrapes.time-counted-once", ok)
	c.stopConnection(k1)
	verifReach("C19.two-scrapes.done", true)
	return ok
}

// C16: an association that has already relayed datagrams reports more of them while a scrape
// runs: whatever the interleaving, the bytes per key and direction exported afterwards are the
// bytes reported (nothing is lost between what a scrape has read and what it resets or adds)
func VH_C16_report_during_scrape() {
	for rep := 0; rep < verifRepeat(40); rep++ {
		if !verifBody_C16_report_during_scrape() {
			return
		}
	}
}

func verifBody_C16_report_during_scrape() bool {
	verifSched(1)
	verifInstallClock(1 << 41)
	m, _ := NewServiceMetrics(nil)
	u := m.AddUDPNatEntry(&net.UDPAddr{IP: net.IPv4(203, 0, 113, 5), Port: 40000}, "key-3")
	u.AddPacketFromClient("OK", 100, 40)
	u.AddPacketFromTarget("OK", 70, 110)
	n := 1
	if verifNative() {
		n = 20000
	}
	a, b := verifI64("cp"), verifI64("pt")
	c, d := verifI64("tp"), verifI64("pc")
	verifAssume(a > 0 && b > 0 && c > 0 && d > 0 && a < 1<<16 && b < 1<<16 && c < 1<<16 && d < 1<<16)
	fromTarget := verifFlag("from-target")
	verifPar(
		func() {
			for i := 0; i < 1 || (verifNative() && i < 200); i++ {
				m.Collect(make(chan prometheus_Metric, 256))
			}
		},
		func() {
			for i := 0; i < n; i++ {
				if fromTarget {
					u.AddPacketFromTarget("OK", c, d)
				} else {
					u.AddPacketFromClient("OK", a, b)
				}
			}
		},
	)
	m.Collect(make(chan prometheus_Metric, 256)) // a last scrape with the association still open
	verifAdvance()
	u.RemoveNatEntry()
	pk := m.udpServiceMetrics.proxyCollector.dataBytesPerKey
	var wa, wb, wc, wd int64 = 100, 40, 70, 110
	if fromTarget {
		wc, wd = wc+int64(n)*c, wd+int64(n)*d
	} else {
		wa, wb = wa+int64(n)*a, wb+int64(n)*b
	}
	ok := verifCounterValue(pk, "int", "c>p", "key-3") == wa && verifCounterValue(pk, "int", "p>t", "key-3") == wb &&
		verifCounterValue(pk, "int", "p<t", "key-3") == wc && verifCounterValue(pk, "int", "c<p", "key-3") == wd
	verifAssert("C16.report-during-scrape.bytes-all-counted", ok)
	verifReach("C16.report-during-scrape.done", true)
	return ok
}

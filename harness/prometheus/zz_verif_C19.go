package prometheus

// C19 (collectors): traffic against scrapes.
import (
	"errors"
	"net"
	"net/netip"
	"sync"
	"time"

	"github.com/Jigsaw-Code/outline-ss-server/ipinfo"
	"github.com/Jigsaw-Code/outline-ss-server/service/metrics"
	"github.com/prometheus/client_golang/prometheus"
)

// keep the imports used whatever this file ends up holding
var _ = errors.New
var _ net.IP
var _ netip.Addr
var _ sync.Mutex
var _ time.Duration
var _ ipinfo.IPInfo
var _ metrics.ProxyMetrics
var _ prometheus.Metric

// the first two tunnels of a client start at the same moment: both are counted, and the client
// stays active until both are closed
func VH_C19_concurrent_first_tunnels() {
	for rep := 0; rep < verifRepeat(300); rep++ {
		verifBody_C19_first_tunnels()
	}
}

func verifBody_C19_first_tunnels() {
	verifRaceDetect(true)
	verifSched(2)
	c := newTunnelTimeMetrics(verifSlowDB{})
	k1 := IPKey{netip.AddrFrom4([4]byte{203, 0, 113, 5}), "k1"}
	verifPar(
		func() { c.startConnection(k1) },
		func() { c.startConnection(k1) },
	)
	c.mu.Lock()
	cl := c.activeClients[k1]
	n := 0
	if cl != nil {
		n = cl.connCount
	}
	c.mu.Unlock()
	verifAssert("C19.first-tunnels.equals-a-sequential-order", n == 2)
	verifAssert("C17.first-tunnels.both-counted", n == 2)
	c.stopConnection(k1)
	c.mu.Lock()
	left := len(c.activeClients)
	c.mu.Unlock()
	verifAssert("C17.first-tunnels.active-until-last-closes", left == 1)
	c.stopConnection(k1)
	verifReach("C19.first-tunnels.done", true)
}

func VH_C19_tunneltime() {
	for rep := 0; rep < verifRepeat(150); rep++ {
		verifBody_C19_tunneltime()
	}
}

func verifBody_C19_tunneltime() {
	verifRaceDetect(true)
	verifSched(1)
	base := time.Now()
	_ = base
	c := newTunnelTimeMetrics(nil)
	k1 := IPKey{netip.AddrFrom4([4]byte{203, 0, 113, 5}), "k1"}
	c.startConnection(k1)
	verifPar(
		func() { c.startConnection(k1) },
		func() { c.stopConnection(k1) },
		func() { c.Collect(make(chan prometheus_Metric, 16)) },
	)
	verifReach("C19.tunneltime.done", true)
}

// two connections report concurrently while a scrape runs
func VH_C19_connmetrics() {
	for rep := 0; rep < verifRepeat(150); rep++ {
		verifBody_C19_connmetrics()
	}
}

func verifBody_C19_connmetrics() {
	verifRaceDetect(true)
	verifSched(1)
	m, _ := NewServiceMetrics(nil)
	mk := func(port int) *verifConn {
		return &verifConn{remote: &net.TCPAddr{IP: net.IPv4(203, 0, 113, 5), Port: port}, local: &net.TCPAddr{IP: net.IPv4(192, 0, 2, 1), Port: 443}}
	}
	verifPar(
		func() {
			t := m.AddOpenTCPConnection(mk(50000))
			t.AddAuthenticated("k1")
			t.AddClosed("OK", metrics.ProxyMetrics{ClientProxy: 1}, time.Second)
		},
		func() {
			u := m.AddUDPNatEntry(&net.UDPAddr{IP: net.IPv4(203, 0, 113, 5), Port: 40000}, "k1")
			u.AddPacketFromClient("OK", 10, 5)
			u.RemoveNatEntry()
		},
		func() { m.Collect(make(chan prometheus_Metric, 64)) },
	)
	verifReach("C19.connmetrics.done", true)
}

// the last tunnel of a client closes while a scrape runs
func VH_C19_scrape_vs_last_close() {
	for rep := 0; rep < verifRepeat(150); rep++ {
		verifBody_C19_scrape_vs_last_close()
	}
}

func verifBody_C19_scrape_vs_last_close() {
	verifRaceDetect(true)
	verifSched(1)
	c := newTunnelTimeMetrics(nil)
	k1 := IPKey{netip.AddrFrom4([4]byte{203, 0, 113, 5}), "k1"}
	k2 := IPKey{netip.AddrFrom4([4]byte{203, 0, 113, 6}), "k1"}
	c.startConnection(k1)
	c.startConnection(k2)
	verifPar(
		func() { c.stopConnection(k1) },
		func() { c.Collect(make(chan prometheus_Metric, 16)) },
		func() { c.stopConnection(k2) },
	)
	verifReach("C19.scrape-vs-close.done", true)
}

package prometheus

// C19 (collectors): traffic against scrapes.

import (
	"net"
	"net/netip"
	"sync"
	"time"

	"github.com/Jigsaw-Code/outline-ss-server/service/metrics"
)

func verifPar(fs ...func()) {
	var wg sync.WaitGroup
	for _, f := range fs {
		wg.Add(1)
		f := f
		go func() {
			defer wg.Done()
			f()
		}()
	}
	wg.Wait()
}

func VH_C19_tunneltime() {
	for rep := 0; rep < verifRepeat(150); rep++ {
		verifBody_C19_tunneltime()
	}
}

func verifBody_C19_tunneltime() {
	verifRaceDetect(true)
	verifSched(1)
	base := time.Now()
	_ = base
	c := newTunnelTimeMetrics(nil)
	k1 := IPKey{netip.AddrFrom4([4]byte{203, 0, 113, 5}), "k1"}
	c.startConnection(k1)
	verifPar(
		func() { c.startConnection(k1) },
		func() { c.stopConnection(k1) },
		func() { c.Collect(make(chan prometheus_Metric, 16)) },
	)
	verifReach("C19.tunneltime.done", true)
}

// two connections report concurrently while a scrape runs
func VH_C19_connmetrics() {
	for rep := 0; rep < verifRepeat(150); rep++ {
		verifBody_C19_connmetrics()
	}
}

func verifBody_C19_connmetrics() {
	verifRaceDetect(true)
	verifSched(1)
	m, _ := NewServiceMetrics(nil)
	mk := func(port int) *verifConn {
		return &verifConn{remote: &net.TCPAddr{IP: net.IPv4(203, 0, 113, 5), Port: port}, local: &net.TCPAddr{IP: net.IPv4(192, 0, 2, 1), Port: 443}}
	}
	verifPar(
		func() {
			t := m.AddOpenTCPConnection(mk(50000))
			t.AddAuthenticated("k1")
			t.AddClosed("OK", metrics.ProxyMetrics{ClientProxy: 1}, time.Second)
		},
		func() {
			u := m.AddUDPNatEntry(&net.UDPAddr{IP: net.IPv4(203, 0, 113, 5), Port: 40000}, "k1")
			u.AddPacketFromClient("OK", 10, 5)
			u.RemoveNatEntry()
		},
		func() { m.Collect(make(chan prometheus_Metric, 64)) },
	)
	verifReach("C19.connmetrics.done", true)
}

// the last tunnel of a client closes while a scrape runs
func VH_C19_scrape_vs_last_close() {
	for rep := 0; rep < verifRepeat(150); rep++ {
		verifBody_C19_scrape_vs_last_close()
	}
}

func verifBody_C19_scrape_vs_last_close() {
	verifRaceDetect(true)
	verifSched(1)
	c := newTunnelTimeMetrics(nil)
	k1 := IPKey{netip.AddrFrom4([4]byte{203, 0, 113, 5}), "k1"}
	k2 := IPKey{netip.AddrFrom4([4]byte{203, 0, 113, 6}), "k1"}
	c.startConnection(k1)
	c.startConnection(k2)
	verifPar(
		func() { c.stopConnection(k1) },
		func() { c.Collect(make(chan prometheus_Metric, 16)) },
		func() { c.stopConnection(k2) },
	)
	verifReach("C19.scrape-vs-close.done", true)
}

package prometheus

// C17 — tunnel time per access key (white box: drives tunnelTimeMetrics directly).
import (
	"errors"
	"net"
	"net/netip"
	"sync"
	"time"

	"github.com/Jigsaw-Code/outline-ss-server/ipinfo"
	"github.com/Jigsaw-Code/outline-ss-server/service/metrics"
	"github.com/prometheus/client_golang/prometheus"
)

// keep the imports used whatever this file ends up holding
var _ = errors.New
var _ net.IP
var _ netip.Addr
var _ sync.Mutex
var _ time.Duration
var _ ipinfo.IPInfo
var _ metrics.ProxyMetrics
var _ prometheus.Metric

func verifC17History(steps int) {
	verifInstallClock(1 << 41)
	c := newTunnelTimeMetrics(nil)
	keys := []IPKey{
		{netip.AddrFrom4([4]byte{203, 0, 113, 5}), "k1"},
		{netip.AddrFrom4([4]byte{203, 0, 113, 6}), "k1"}, // another client of the same key
		{netip.AddrFrom4([4]byte{203, 0, 113, 5}), "k2"}, // same client, another key
	}
	open := make([]int, len(keys))
	due := map[string]int64{"k1": 0, "k2": 0}
	for i := 0; i < steps; i++ {
		dt := verifAdvance()
		for k := range keys {
			if open[k] > 0 {
				due[keys[k].accessKey] += dt
			}
		}
		op := verifChoice("op", 7)
		switch {
		case op < 3:
			c.startConnection(keys[op])
			open[op]++
		case op < 6:
			k := op - 3
			c.stopConnection(keys[k])
			if open[k] > 0 {
				open[k]--
			}
		default:
			c.Collect(make(chan prometheus_Metric, 16))
			verifAssert("C17.scrape.k1", verifEqNanos(verifCounterValue(c.tunnelTimePerKey, "ns", "k1"), due["k1"]))
			verifAssert("C17.scrape.k2", verifEqNanos(verifCounterValue(c.tunnelTimePerKey, "ns", "k2"), due["k2"]))
			verifReach("C17.scrape.nonzero", due["k1"] > 0)
		}
		// internal consistency visible through the API: an entry exists iff a tunnel is open
		for k := range keys {
			_, present := c.activeClients[keys[k]]
			verifReach("C17.entry-iff-open", present == (open[k] > 0)) // how open tunnels are represented is not part of the property: observed, not required
		}
	}
	dt := verifAdvance()
	for k := range keys {
		if open[k] > 0 {
			due[keys[k].accessKey] += dt
		}
	}
	c.Collect(make(chan prometheus_Metric, 16))
	verifAssert("C17.final.k1", verifEqNanos(verifCounterValue(c.tunnelTimePerKey, "ns", "k1"), due["k1"]))
	verifAssert("C17.final.k2", verifEqNanos(verifCounterValue(c.tunnelTimePerKey, "ns", "k2"), due["k2"]))
	// per-location totals equal per-key totals (location disabled: one empty label set)
	verifAssert("C17.final.location-total", verifEqNanos(verifCounterValue(c.tunnelTimePerLocation, "ns", "", "", ""), due["k1"]+due["k2"]))
	verifReach("C17.final.overlap", open[0] >= 2)
	verifReach("C17.final.two-clients", open[0] >= 1 && open[1] >= 1)
}

func VH_C17_history() { verifC17History(4) }

// tunnel time does not depend on the location database working: histories over one client with
// a database that fails arbitrarily
func VH_C17_history_flaky_db() {
	verifInstallClock(1 << 41)
	db := &verifFlakyDB{}
	c := newTunnelTimeMetrics(db)
	k := IPKey{netip.AddrFrom4([4]byte{203, 0, 113, 5}), "k1"}
	open, due := 0, int64(0)
	for i := 0; i < 4; i++ {
		dt := verifAdvance()
		if open > 0 {
			due += dt
		}
		switch verifChoice("op", 3) {
		case 0:
			c.startConnection(k)
			open++
		case 1:
			c.stopConnection(k)
			if open > 0 {
				open--
			}
		default:
			c.Collect(make(chan prometheus_Metric, 16))
			verifAssert("C17.flaky-db.scrape", verifEqNanos(verifCounterValue(c.tunnelTimePerKey, "ns", "k1"), due))
		}
		_, present := c.activeClients[k]
		verifReach("C17.flaky-db.entry-iff-open", present == (open > 0)) // observed, not required
	}
	dt := verifAdvance()
	if open > 0 {
		due += dt
	}
	c.Collect(make(chan prometheus_Metric, 16))
	verifAssert("C17.flaky-db.final", verifEqNanos(verifCounterValue(c.tunnelTimePerKey, "ns", "k1"), due))
	verifReach("C17.flaky-db.failed-lookup-with-time", db.lookups > 0 && due > 0)
}

func VH_C17_history_T() { verifC17History(6) }

// pairing through the connection-metrics API: an authenticated TCP connection starts and stops
// exactly one tunnel for (client IP, key); an unauthenticated one none; a UDP association one.
func VH_C17_pairing() {
	verifInstallClock(1 << 41)
	m, err := NewServiceMetrics(nil)
	verifAssert("C17.pairing.built", err == nil)
	ids := []string{"k1", "", "a"}
	id := ids[verifChoice("id", len(ids))]
	conn := &verifConn{remote: &net.TCPAddr{IP: net.IPv4(203, 0, 113, 5), Port: 50000}, local: &net.TCPAddr{IP: net.IPv4(192, 0, 2, 1), Port: 443}}
	var total int64
	tcm := m.AddOpenTCPConnection(conn)
	verifAdvance()
	authenticated := verifFlag("authenticated")
	if authenticated {
		tcm.AddAuthenticated(id)
	} else {
		tcm.AddProbe("ERR_CIPHER", "eof", 50)
	}
	dt := verifAdvance()
	if authenticated {
		total += dt
	}
	tcm.AddClosed("OK", metrics.ProxyMetrics{}, time.Duration(dt))
	verifReach("C17.pairing.tcp-tunnel-closed", // representation, observed only
		len(m.tunnelTimeMetrics.activeClients) == 0)
	// a UDP association of the same client and key
	ucm := m.AddUDPNatEntry(&net.UDPAddr{IP: net.IPv4(203, 0, 113, 5), Port: 40000}, id)
	verifReach("C17.pairing.udp-tunnel-open", // representation, observed only
		len(m.tunnelTimeMetrics.activeClients) == 1)
	dt2 := verifAdvance()
	total += dt2
	ucm.RemoveNatEntry()
	verifReach("C17.pairing.udp-tunnel-closed", // representation, observed only
		len(m.tunnelTimeMetrics.activeClients) == 0)
	verifAdvance()
	m.tunnelTimeMetrics.Collect(make(chan prometheus_Metric, 16))
	verifAssert("C17.pairing.total", verifEqNanos(verifCounterValue(m.tunnelTimeMetrics.tunnelTimePerKey, "ns", id), total))
	verifReach("C17.pairing.empty-id", authenticated && id == "")
	verifReach("C17.pairing.unauthenticated", !authenticated)
}

// Collect reads the clock before it takes the lock: a tunnel that starts in between must not
// break the scrape (no negative duration, no panic, the lock is released).
func VH_C17_scrape_race() {
	verifClockNs = 1 << 41
	c := newTunnelTimeMetrics(nil)
	k1 := IPKey{netip.AddrFrom4([4]byte{203, 0, 113, 5}), "k1"}
	k2 := IPKey{netip.AddrFrom4([4]byte{203, 0, 113, 6}), "k1"}
	c2 := c
	interfere := true
	now = func() time.Time {
		t := verifTime(verifClockNs)
		if interfere && c2.mu.TryLock() {
			// the collector's lock is free at this clock reading, so another goroutine can run
			// here, between the reading and a later Lock()
			c2.mu.Unlock()
			interfere = false
			verifClockNs += 1000
			c2.startConnection(k2)
		}
		return t
	}
	interfere = false
	c.startConnection(k1)
	verifClockNs += 5000
	interfere = true
	c.Collect(make(chan prometheus_Metric, 16))
	interfere = false
	// the collector is still usable afterwards (its mutex is not left locked)
	c.stopConnection(k1)
	c.stopConnection(k2)
	verifReach("C17.scrape-race.done", true)
}

// one client reaches the server through sockets that report its address in different forms
// (4-byte, IPv4-mapped 16-byte): it is one client, overlapping tunnels are counted once
func VH_C17_client_identity() {
	verifInstallClock(1 << 41)
	m, _ := NewServiceMetrics(nil)
	ip4 := net.IP{203, 0, 113, 5}
	forms := []net.IP{ip4, ip4.To16()}
	fa, fb := forms[verifChoice("form-a", 2)], forms[verifChoice("form-b", 2)]
	a := m.AddOpenTCPConnection(&verifConn{remote: &net.TCPAddr{IP: fa, Port: 50000}, local: &net.TCPAddr{IP: net.IPv4(192, 0, 2, 1), Port: 443}})
	a.AddAuthenticated("k1")
	d1 := verifAdvance()
	var b interface{ RemoveNatEntry() }
	udp := verifFlag("second-is-udp")
	var bt interface {
		AddAuthenticated(string)
	}
	_ = bt
	var closeB func()
	if udp {
		u := m.AddUDPNatEntry(&net.UDPAddr{IP: fb, Port: 40000}, "k1")
		closeB = u.RemoveNatEntry
	} else {
		t := m.AddOpenTCPConnection(&verifConn{remote: &net.TCPAddr{IP: fb, Port: 50001}, local: &net.TCPAddr{IP: net.IPv4(192, 0, 2, 1), Port: 443}})
		t.AddAuthenticated("k1")
		closeB = func() { t.AddClosed("OK", metrics.ProxyMetrics{}, time.Second) }
	}
	_ = b
	verifReach("C17.identity.one-client", // representation, observed only
		len(m.tunnelTimeMetrics.activeClients) == 1)
	d2 := verifAdvance()
	a.AddClosed("OK", metrics.ProxyMetrics{}, time.Second)
	d3 := verifAdvance()
	closeB()
	verifAdvance()
	m.tunnelTimeMetrics.Collect(make(chan prometheus_Metric, 16))
	verifAssert("C17.identity.overlap-counted-once", verifEqNanos(verifCounterValue(m.tunnelTimeMetrics.tunnelTimePerKey, "ns", "k1"), d1+d2+d3))
	verifReach("C17.identity.mixed-forms", len(fa) != len(fb))
}

// connection-metrics objects may be recycled by the implementation: an unauthenticated connection
// that follows an authenticated one (same client) never stops that client's open tunnel
func VH_C17_unauthenticated_after_authenticated() {
	verifInstallClock(1 << 41)
	m, _ := NewServiceMetrics(nil)
	ip := net.IPv4(203, 0, 113, 5)
	local := &net.TCPAddr{IP: net.IPv4(192, 0, 2, 1), Port: 443}
	var total int64
	a := m.AddOpenTCPConnection(&verifConn{remote: &net.TCPAddr{IP: ip, Port: 50000}, local: local})
	a.AddAuthenticated("k1")
	total += verifAdvance()
	a.AddClosed("OK", metrics.ProxyMetrics{}, time.Second)
	verifAdvance() // no tunnel open: not counted
	u := m.AddUDPNatEntry(&net.UDPAddr{IP: ip, Port: 40000}, "k1")
	total += verifAdvance()
	// a probe (or a client with a stale key, or a refused replay) from the same address
	p := m.AddOpenTCPConnection(&verifConn{remote: &net.TCPAddr{IP: ip, Port: 50001}, local: local})
	p.AddProbe("ERR_CIPHER", "eof", 50)
	p.AddClosed("ERR_CIPHER", metrics.ProxyMetrics{ClientProxy: 50}, time.Second)
	verifReach("C17.recycled.tunnel-still-open", // representation, observed only
		len(m.tunnelTimeMetrics.activeClients) == 1)
	total += verifAdvance()
	u.RemoveNatEntry()
	verifReach("C17.recycled.tunnel-closed-by-its-own-end", // representation, observed only
		len(m.tunnelTimeMetrics.activeClients) == 0)
	verifAdvance()
	m.tunnelTimeMetrics.Collect(make(chan prometheus_Metric, 16))
	verifAssert("C17.recycled.total", verifEqNanos(verifCounterValue(m.tunnelTimeMetrics.tunnelTimePerKey, "ns", "k1"), total))
	verifAssert("C17.recycled.nothing-under-the-empty-key", verifCounterValue(m.tunnelTimeMetrics.tunnelTimePerKey, "ns", "") == 0)
	verifReach("C17.recycled.done", true)
}

// the same histories through the connection-metrics API only (no access to how open tunnels are
// represented): clients open authenticated TCP connections and UDP associations in turn, close
// the latest one, time passes, scrapes happen; three (client, key) pairs: two clients of one key,
// one client with two keys
func verifC17HistoryAPI(steps int) {
	verifInstallClock(1 << 41)
	m, err := NewServiceMetrics(nil)
	verifAssert("C17.api.built", err == nil)
	type pair struct {
		ip  net.IP
		key string
	}
	pairs := []pair{
		{net.IPv4(203, 0, 113, 5), "k1"},
		{net.IPv4(203, 0, 113, 6), "k1"}, // another client of the same key
		{net.IPv4(203, 0, 113, 5), "k2"}, // same client, another key
	}
	closers := make([][]func(), len(pairs))
	due := map[string]int64{"k1": 0, "k2": 0}
	opened := 0
	account := func(dt int64) {
		for k := range pairs {
			if len(closers[k]) > 0 {
				due[pairs[k].key] += dt
			}
		}
	}
	for i := 0; i < steps; i++ {
		account(verifAdvance())
		op := verifChoice("op", 7)
		switch {
		case op < 3:
			p := pairs[op]
			opened++
			if opened%2 == 1 {
				u := m.AddUDPNatEntry(&net.UDPAddr{IP: p.ip, Port: 40000 + opened}, p.key)
				closers[op] = append(closers[op], func() { u.RemoveNatEntry() })
			} else {
				conn := &verifConn{remote: &net.TCPAddr{IP: p.ip, Port: 50000 + opened}, local: &net.TCPAddr{IP: net.IPv4(192, 0, 2, 1), Port: 443}}
				t := m.AddOpenTCPConnection(conn)
				t.AddAuthenticated(p.key)
				closers[op] = append(closers[op], func() { t.AddClosed("OK", metrics.ProxyMetrics{}, time.Second) })
			}
		case op < 6:
			k := op - 3
			if n := len(closers[k]); n > 0 {
				closers[k][n-1]()
				closers[k] = closers[k][:n-1]
			}
		default:
			m.Collect(make(chan prometheus_Metric, 256))
			tt := m.tunnelTimeMetrics
			verifAssert("C17.api.scrape.k1", verifEqNanos(verifCounterValue(tt.tunnelTimePerKey, "ns", "k1"), due["k1"]))
			verifAssert("C17.api.scrape.k2", verifEqNanos(verifCounterValue(tt.tunnelTimePerKey, "ns", "k2"), due["k2"]))
			verifAssert("C17.api.scrape.location-total", verifEqNanos(verifCounterValue(tt.tunnelTimePerLocation, "ns", "", "", ""), due["k1"]+due["k2"]))
			verifReach("C17.api.scrape.nonzero", due["k2"] > 0)
		}
	}
	account(verifAdvance())
	m.Collect(make(chan prometheus_Metric, 256))
	tt := m.tunnelTimeMetrics
	verifAssert("C17.api.final.k1", verifEqNanos(verifCounterValue(tt.tunnelTimePerKey, "ns", "k1"), due["k1"]))
	verifAssert("C17.api.final.k2", verifEqNanos(verifCounterValue(tt.tunnelTimePerKey, "ns", "k2"), due["k2"]))
	verifAssert("C17.api.final.location-total", verifEqNanos(verifCounterValue(tt.tunnelTimePerLocation, "ns", "", "", ""), due["k1"]+due["k2"]))
	verifReach("C17.api.final.overlap", len(closers[0]) >= 2)
	verifReach("C17.api.final.two-keys-of-one-client", len(closers[0]) >= 1 && len(closers[2]) >= 1)
}

func VH_C17_history_api() { verifC17HistoryAPI(4) }

func VH_C17_history_api_T() { verifC17HistoryAPI(5) } // (6 steps exceed the path budget: 7^6 orders)

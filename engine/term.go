package main

// SMT term DAG with eager constant folding. One TermCtx per symbolic run.

import (
	"fmt"
	"strings"
)

type SortKind int

const (
	SBool SortKind = iota
	SBV
	SArr // (Array (_ BitVec 64) (_ BitVec EW))
)

type Sort struct {
	K  SortKind
	W  int // bit-vector width
	EW int // element width for arrays
}

func (s Sort) String() string {
	switch s.K {
	case SBool:
		return "Bool"
	case SBV:
		return fmt.Sprintf("(_ BitVec %d)", s.W)
	default:
		return fmt.Sprintf("(Array (_ BitVec 64) (_ BitVec %d))", s.EW)
	}
}

func BV(w int) Sort    { return Sort{K: SBV, W: w} }
func ArrS(ew int) Sort { return Sort{K: SArr, EW: ew} }

var BoolS = Sort{K: SBool}

type Op int

const (
	OConst Op = iota
	OVar
	ONot
	OAnd
	OOr
	OIte
	OEq
	OAdd
	OSub
	OMul
	OUDiv
	OURem
	OSDiv
	OSRem
	OBAnd
	OBOr
	OBXor
	OShl
	OLShr
	OAShr
	ONeg
	OBNot
	OULT
	OULE
	OSLT
	OSLE
	OConcat
	OExtract
	OZExt
	OSExt
	OSelect
	OStore
	OConstArr
	ORangeCopy // args: dst, src, dOff, sOff, n  -> array
	OUF        // uninterpreted function application: Name + args
)

var opNames = map[Op]string{
	ONot: "not", OAnd: "and", OOr: "or", OIte: "ite", OEq: "=",
	OAdd: "bvadd", OSub: "bvsub", OMul: "bvmul", OUDiv: "bvudiv", OURem: "bvurem",
	OSDiv: "bvsdiv", OSRem: "bvsrem", OBAnd: "bvand", OBOr: "bvor", OBXor: "bvxor",
	OShl: "bvshl", OLShr: "bvlshr", OAShr: "bvashr", ONeg: "bvneg", OBNot: "bvnot",
	OULT: "bvult", OULE: "bvule", OSLT: "bvslt", OSLE: "bvsle", OConcat: "concat",
	OSelect: "select", OStore: "store",
}

type Term struct {
	Op   Op
	S    Sort
	Args []*Term
	Val  uint64 // OConst value (bool: 0/1); OExtract: hi<<8|lo; OZExt/OSExt: extra bits
	Name string // OVar / OUF
	ID   int
}

type TermCtx struct {
	next   int
	vars   []*Term
	ufs    map[string]*Term // first application of each UF (for declaration)
	nTerms int
	cons   map[string]*Term
	cons2  map[termKey]*Term
}

func NewTermCtx() *TermCtx {
	return &TermCtx{ufs: map[string]*Term{}, cons: map[string]*Term{}, cons2: map[termKey]*Term{}}
}

func mask(w int) uint64 {
	if w >= 64 {
		return ^uint64(0)
	}
	return (uint64(1) << uint(w)) - 1
}

type termKey struct {
	op         Op
	k          SortKind
	w, ew      int
	val        uint64
	n          int
	a0, a1, a2 int
}

func (c *TermCtx) mk(op Op, s Sort, args ...*Term) *Term {
	return c.mkv(op, s, 0, args...)
}

func (c *TermCtx) mkv(op Op, s Sort, val uint64, args ...*Term) *Term {
	cons := len(args) <= 3
	var key termKey
	if cons {
		key = termKey{op: op, k: s.K, w: s.W, ew: s.EW, val: val, n: len(args)}
		if len(args) > 0 {
			key.a0 = args[0].ID
		}
		if len(args) > 1 {
			key.a1 = args[1].ID
		}
		if len(args) > 2 {
			key.a2 = args[2].ID
		}
		if t, ok := c.cons2[key]; ok {
			return t
		}
	}
	c.next++
	c.nTerms++
	t := &Term{Op: op, S: s, Args: args, ID: c.next, Val: val}
	if cons {
		c.cons2[key] = t
	}
	return t
}

func (c *TermCtx) Const(w int, v uint64) *Term {
	return c.mkv(OConst, BV(w), v&mask(w))
}

func (c *TermCtx) Bool(b bool) *Term {
	v := uint64(0)
	if b {
		v = 1
	}
	return c.mkv(OConst, BoolS, v)
}

func (c *TermCtx) Var(name string, s Sort) *Term {
	c.next++
	t := &Term{Op: OVar, S: s, Name: name, ID: c.next}
	c.vars = append(c.vars, t)
	return t
}

func (t *Term) IsConst() bool { return t.Op == OConst }
func (t *Term) IsTrue() bool  { return t.Op == OConst && t.S.K == SBool && t.Val == 1 }
func (t *Term) IsFalse() bool { return t.Op == OConst && t.S.K == SBool && t.Val == 0 }

// signed value of a constant
func (t *Term) SVal() int64 {
	w := t.S.W
	v := t.Val
	if w < 64 && v&(1<<uint(w-1)) != 0 {
		v |= ^mask(w)
	}
	return int64(v)
}

func (c *TermCtx) Not(a *Term) *Term {
	if a.IsConst() {
		return c.Bool(a.Val == 0)
	}
	if a.Op == ONot {
		return a.Args[0]
	}
	return c.mk(ONot, BoolS, a)
}

func (c *TermCtx) And(as ...*Term) *Term {
	var out []*Term
	for _, a := range as {
		if a.IsFalse() {
			return a
		}
		if a.IsTrue() {
			continue
		}
		dup := false
		for _, o := range out {
			if o == a {
				dup = true
			}
		}
		if !dup {
			out = append(out, a)
		}
	}
	if len(out) == 0 {
		return c.Bool(true)
	}
	if len(out) == 1 {
		return out[0]
	}
	return c.mk(OAnd, BoolS, out...)
}

func (c *TermCtx) Or(as ...*Term) *Term {
	var out []*Term
	for _, a := range as {
		if a.IsTrue() {
			return a
		}
		if a.IsFalse() {
			continue
		}
		dup := false
		for _, o := range out {
			if o == a {
				dup = true
			}
		}
		if !dup {
			out = append(out, a)
		}
	}
	if len(out) == 0 {
		return c.Bool(false)
	}
	if len(out) == 1 {
		return out[0]
	}
	return c.mk(OOr, BoolS, out...)
}

func (c *TermCtx) Implies(a, b *Term) *Term { return c.Or(c.Not(a), b) }

func (c *TermCtx) Ite(cond, a, b *Term) *Term {
	if cond.IsTrue() {
		return a
	}
	if cond.IsFalse() {
		return b
	}
	if a == b {
		return a
	}
	if a.S.K == SBool {
		if a.IsTrue() && b.IsFalse() {
			return cond
		}
		if a.IsFalse() && b.IsTrue() {
			return c.Not(cond)
		}
	}
	return c.mk(OIte, a.S, cond, a, b)
}

func (c *TermCtx) Eq(a, b *Term) *Term {
	if a == b {
		return c.Bool(true)
	}
	if a.S != b.S {
		panic(fmt.Sprintf("Eq sort mismatch %v %v", a.S, b.S))
	}
	if a.IsConst() && b.IsConst() {
		return c.Bool(a.Val == b.Val)
	}
	if a.S.K == SBool {
		if a.IsConst() {
			if a.Val == 1 {
				return b
			}
			return c.Not(b)
		}
		if b.IsConst() {
			if b.Val == 1 {
				return a
			}
			return c.Not(a)
		}
	}
	// (ite c k1 k2) == k  folding
	if b.IsConst() && a.Op == OIte && a.Args[1].IsConst() && a.Args[2].IsConst() {
		return c.Ite(a.Args[0], c.Bool(a.Args[1].Val == b.Val), c.Bool(a.Args[2].Val == b.Val))
	}
	if a.IsConst() && b.Op == OIte && b.Args[1].IsConst() && b.Args[2].IsConst() {
		return c.Eq(b, a)
	}
	if a.ID > b.ID {
		a, b = b, a
	}
	return c.mk(OEq, BoolS, a, b)
}

func sext(v uint64, w int) int64 {
	if w < 64 && v&(1<<uint(w-1)) != 0 {
		v |= ^mask(w)
	}
	return int64(v)
}

func (c *TermCtx) Bin(op Op, a, b *Term) *Term {
	if a.S != b.S {
		panic(fmt.Sprintf("Bin %v sort mismatch %v %v", opNames[op], a.S, b.S))
	}
	w := a.S.W
	m := mask(w)
	if a.IsConst() && b.IsConst() {
		x, y := a.Val, b.Val
		var r uint64
		switch op {
		case OAdd:
			r = x + y
		case OSub:
			r = x - y
		case OMul:
			r = x * y
		case OUDiv:
			if y == 0 {
				r = m
			} else {
				r = x / y
			}
		case OURem:
			if y == 0 {
				r = x
			} else {
				r = x % y
			}
		case OSDiv:
			sx, sy := sext(x, w), sext(y, w)
			if sy == 0 {
				if sx >= 0 {
					r = m
				} else {
					r = 1
				}
			} else if sy == -1 {
				r = uint64(-sx)
			} else {
				r = uint64(sx / sy)
			}
		case OSRem:
			sx, sy := sext(x, w), sext(y, w)
			if sy == 0 {
				r = x
			} else if sy == -1 {
				r = 0
			} else {
				r = uint64(sx % sy)
			}
		case OBAnd:
			r = x & y
		case OBOr:
			r = x | y
		case OBXor:
			r = x ^ y
		case OShl:
			if y >= uint64(w) {
				r = 0
			} else {
				r = x << y
			}
		case OLShr:
			if y >= uint64(w) {
				r = 0
			} else {
				r = x >> y
			}
		case OAShr:
			sx := sext(x, w)
			if y >= uint64(w) {
				if sx < 0 {
					r = m
				} else {
					r = 0
				}
			} else {
				r = uint64(sx >> y)
			}
		default:
			panic("bad bin op")
		}
		return c.Const(w, r)
	}
	// identities
	switch op {
	case OAdd:
		if a.IsConst() && a.Val == 0 {
			return b
		}
		if b.IsConst() && b.Val == 0 {
			return a
		}
		// (x + k1) + k2
		if b.IsConst() && a.Op == OAdd && a.Args[1].IsConst() {
			return c.Bin(OAdd, a.Args[0], c.Const(w, a.Args[1].Val+b.Val))
		}
		if a.IsConst() {
			return c.Bin(OAdd, b, a)
		}
	case OSub:
		if b.IsConst() && b.Val == 0 {
			return a
		}
		if a == b {
			return c.Const(w, 0)
		}
		if b.IsConst() {
			return c.Bin(OAdd, a, c.Const(w, -b.Val))
		}
		// (x + k) - x
		if a.Op == OAdd && a.Args[0] == b {
			return a.Args[1]
		}
	case OMul:
		if a.IsConst() && a.Val == 0 || b.IsConst() && b.Val == 0 {
			return c.Const(w, 0)
		}
		if a.IsConst() && a.Val == 1 {
			return b
		}
		if b.IsConst() && b.Val == 1 {
			return a
		}
	case OBAnd:
		if a.IsConst() && a.Val == 0 || b.IsConst() && b.Val == 0 {
			return c.Const(w, 0)
		}
		if a.IsConst() && a.Val == m {
			return b
		}
		if b.IsConst() && b.Val == m {
			return a
		}
		if a == b {
			return a
		}
	case OBOr, OBXor:
		if a.IsConst() && a.Val == 0 {
			return b
		}
		if b.IsConst() && b.Val == 0 {
			return a
		}
		if a == b {
			if op == OBOr {
				return a
			}
			return c.Const(w, 0)
		}
	case OShl, OLShr, OAShr:
		if b.IsConst() && b.Val == 0 {
			return a
		}
	}
	return c.mk(op, a.S, a, b)
}

func (c *TermCtx) Cmp(op Op, a, b *Term) *Term {
	if a.S != b.S {
		panic(fmt.Sprintf("Cmp sort mismatch %v %v", a.S, b.S))
	}
	w := a.S.W
	if a.IsConst() && b.IsConst() {
		switch op {
		case OULT:
			return c.Bool(a.Val < b.Val)
		case OULE:
			return c.Bool(a.Val <= b.Val)
		case OSLT:
			return c.Bool(sext(a.Val, w) < sext(b.Val, w))
		case OSLE:
			return c.Bool(sext(a.Val, w) <= sext(b.Val, w))
		}
	}
	if a == b {
		return c.Bool(op == OULE || op == OSLE)
	}
	if op == OULT && b.IsConst() && b.Val == 0 {
		return c.Bool(false)
	}
	if op == OULE && a.IsConst() && a.Val == 0 {
		return c.Bool(true)
	}
	return c.mk(op, BoolS, a, b)
}

func (c *TermCtx) Neg(a *Term) *Term {
	if a.IsConst() {
		return c.Const(a.S.W, -a.Val)
	}
	return c.mk(ONeg, a.S, a)
}

func (c *TermCtx) BNot(a *Term) *Term {
	if a.IsConst() {
		return c.Const(a.S.W, ^a.Val)
	}
	return c.mk(OBNot, a.S, a)
}

func (c *TermCtx) Extract(a *Term, hi, lo int) *Term {
	w := hi - lo + 1
	if lo == 0 && w == a.S.W {
		return a
	}
	if a.IsConst() {
		return c.Const(w, a.Val>>uint(lo))
	}
	// extract of zext/sext within the original
	if (a.Op == OZExt || a.Op == OSExt) && hi < a.Args[0].S.W {
		return c.Extract(a.Args[0], hi, lo)
	}
	if a.Op == OZExt && lo >= a.Args[0].S.W {
		return c.Const(w, 0)
	}
	if a.Op == OConcat {
		lw := a.Args[1].S.W
		if hi < lw {
			return c.Extract(a.Args[1], hi, lo)
		}
		if lo >= lw {
			return c.Extract(a.Args[0], hi-lw, lo-lw)
		}
	}
	return c.mkv(OExtract, BV(w), uint64(hi)<<8|uint64(lo), a)
}

func (c *TermCtx) ZExt(a *Term, to int) *Term {
	if to == a.S.W {
		return a
	}
	if to < a.S.W {
		return c.Extract(a, to-1, 0)
	}
	if a.IsConst() {
		return c.Const(to, a.Val)
	}
	if a.Op == OZExt {
		return c.ZExt(a.Args[0], to)
	}
	return c.mkv(OZExt, BV(to), uint64(to-a.S.W), a)
}

func (c *TermCtx) SExt(a *Term, to int) *Term {
	if to == a.S.W {
		return a
	}
	if to < a.S.W {
		return c.Extract(a, to-1, 0)
	}
	if a.IsConst() {
		return c.Const(to, uint64(sext(a.Val, a.S.W)))
	}
	if a.Op == OZExt {
		// sign bit is zero
		return c.ZExt(a.Args[0], to)
	}
	return c.mkv(OSExt, BV(to), uint64(to-a.S.W), a)
}

func (c *TermCtx) Concat(hi, lo *Term) *Term {
	w := hi.S.W + lo.S.W
	if hi.IsConst() && lo.IsConst() && w <= 64 {
		return c.Const(w, hi.Val<<uint(lo.S.W)|lo.Val)
	}
	if hi.IsConst() && hi.Val == 0 {
		return c.ZExt(lo, w)
	}
	return c.mk(OConcat, BV(w), hi, lo)
}

func (c *TermCtx) ConstArr(ew int, v uint64) *Term {
	return c.mkv(OConstArr, ArrS(ew), v&mask(ew))
}

func (c *TermCtx) Select(a, i *Term) *Term {
	// read-over-write with syntactically decidable indices
	for a.Op == OStore {
		j := a.Args[1]
		if j == i {
			return a.Args[2]
		}
		if j.IsConst() && i.IsConst() {
			a = a.Args[0]
			continue
		}
		break
	}
	if a.Op == OConstArr {
		return c.Const(a.S.EW, a.Val)
	}
	return c.mk(OSelect, BV(a.S.EW), a, i)
}

func (c *TermCtx) Store(a, i, v *Term) *Term {
	return c.mk(OStore, a.S, a, i, v)
}

// RangeCopy: result[j] = (dOff <= j < dOff+n) ? src[j-dOff+sOff] : dst[j]
func (c *TermCtx) RangeCopy(dst, src, dOff, sOff, n *Term) *Term {
	if n.IsConst() && n.Val == 0 {
		return dst
	}
	return c.mk(ORangeCopy, dst.S, dst, src, dOff, sOff, n)
}

func (c *TermCtx) UF(name string, s Sort, args ...*Term) *Term {
	c.next++
	t := &Term{Op: OUF, S: s, Name: name, Args: args, ID: c.next}
	// hash-cons by args so equal applications are pointer-equal
	var sb strings.Builder
	sb.WriteString("uf:" + name)
	for _, a := range args {
		fmt.Fprintf(&sb, ",%d", a.ID)
	}
	if o, ok := c.cons[sb.String()]; ok {
		return o
	}
	c.cons[sb.String()] = t
	if _, ok := c.ufs[name]; !ok {
		c.ufs[name] = t
	}
	return t
}

// ---------- printing -------------

func constStr(t *Term) string {
	if t.S.K == SBool {
		if t.Val == 1 {
			return "true"
		}
		return "false"
	}
	w := t.S.W
	if w%4 == 0 {
		return fmt.Sprintf("#x%0*x", w/4, t.Val)
	}
	return fmt.Sprintf("#b%0*b", w, t.Val)
}

// ref returns the textual reference to t given the set of already named nodes.
func ref(t *Term) string {
	switch t.Op {
	case OConst:
		return constStr(t)
	case OVar:
		return t.Name
	}
	return fmt.Sprintf("t%d", t.ID)
}

func body(t *Term) string {
	switch t.Op {
	case OConst, OVar:
		return ref(t)
	case OExtract:
		return fmt.Sprintf("((_ extract %d %d) %s)", t.Val>>8, t.Val&0xff, ref(t.Args[0]))
	case OZExt:
		return fmt.Sprintf("((_ zero_extend %d) %s)", t.Val, ref(t.Args[0]))
	case OSExt:
		return fmt.Sprintf("((_ sign_extend %d) %s)", t.Val, ref(t.Args[0]))
	case OConstArr:
		return fmt.Sprintf("((as const %s) %s)", t.S.String(), constStr(&Term{Op: OConst, S: BV(t.S.EW), Val: t.Val}))
	case ORangeCopy:
		d, s, do, so, n := ref(t.Args[0]), ref(t.Args[1]), ref(t.Args[2]), ref(t.Args[3]), ref(t.Args[4])
		return fmt.Sprintf("(lambda ((j!i (_ BitVec 64))) (ite (and (bvule %s j!i) (bvult (bvsub j!i %s) %s)) (select %s (bvadd (bvsub j!i %s) %s)) (select %s j!i)))", do, do, n, s, do, so, d)
	case OUF:
		var sb strings.Builder
		sb.WriteString("(" + t.Name)
		for _, a := range t.Args {
			sb.WriteString(" " + ref(a))
		}
		sb.WriteString(")")
		return sb.String()
	}
	var sb strings.Builder
	sb.WriteString("(" + opNames[t.Op])
	for _, a := range t.Args {
		sb.WriteString(" " + ref(a))
	}
	sb.WriteString(")")
	return sb.String()
}

// Inline renders a term fully inline (for evidence samples; may be large).
func Inline(t *Term, depth int) string {
	if t.Op == OConst || t.Op == OVar {
		return ref(t)
	}
	if depth <= 0 {
		return "…"
	}
	switch t.Op {
	case OExtract:
		return fmt.Sprintf("((_ extract %d %d) %s)", t.Val>>8, t.Val&0xff, Inline(t.Args[0], depth-1))
	case OZExt:
		return fmt.Sprintf("((_ zero_extend %d) %s)", t.Val, Inline(t.Args[0], depth-1))
	case OSExt:
		return fmt.Sprintf("((_ sign_extend %d) %s)", t.Val, Inline(t.Args[0], depth-1))
	case OConstArr:
		return body(t)
	}
	name := opNames[t.Op]
	if t.Op == OUF {
		name = t.Name
	}
	if t.Op == ORangeCopy {
		name = "rangecopy"
	}
	var sb strings.Builder
	sb.WriteString("(" + name)
	for _, a := range t.Args {
		sb.WriteString(" " + Inline(a, depth-1))
	}
	sb.WriteString(")")
	return sb.String()
}

package main

// Program loading (go/packages + go/ssa with the harness overlay) and global initialisation.

import (
	"fmt"
	"go/token"
	"go/types"
	"os"
	"path/filepath"
	"regexp"
	"strings"
	"sync"

	"golang.org/x/tools/go/packages"
	"golang.org/x/tools/go/ssa"
	"golang.org/x/tools/go/ssa/ssautil"
)

type Program struct {
	ssa            *ssa.Program
	fset           *token.FileSet
	pkgs           []*ssa.Package
	byPath         map[string]*ssa.Package
	harness        map[string]*ssa.Function
	runtimeErrType types.Type
	methodCache    sync.Map
	intr           map[string]intrinsicFn
	repoDir        string
	overlay        map[string][]byte
	loadErrs       []string
}

type intrinsicFn func(e *Exec, g *G, args []Value) Value

var repoPkgs = []string{"./net", "./service", "./service/metrics", "./prometheus", "./ipinfo", "./cmd/outline-ss-server"}

func harnessOverlay(repoDir, harnessDir string) (map[string][]byte, error) {
	ov := map[string][]byte{}
	err := filepath.Walk(harnessDir, func(p string, info os.FileInfo, err error) error {
		if err != nil || info.IsDir() || !strings.HasSuffix(p, ".go") {
			return err
		}
		rel, _ := filepath.Rel(harnessDir, p)
		data, err := os.ReadFile(p)
		if err != nil {
			return err
		}
		ov[filepath.Join(repoDir, rel)] = data
		return nil
	})
	return ov, err
}

// excludedHarness: harness files (relative to the harness directory) left out because they do not
// type-check against the current tree (a change renamed or removed an internal symbol they use).
// The harnesses they define are reported as inconclusive; everything else still runs.
var excludedHarness = map[string]string{}

var errPosRe = regexp.MustCompile(`^(\S+?\.go):\d+`)

func loadProgram(repoDir, harnessDir string) (*Program, error) {
	var p *Program
	var initial []*packages.Package
	for attempt := 0; ; attempt++ {
		ov, err := harnessOverlay(repoDir, harnessDir)
		if err != nil {
			return nil, err
		}
		for rel := range excludedHarness {
			delete(ov, filepath.Join(repoDir, rel))
		}
		cfg := &packages.Config{
			Mode: packages.NeedName | packages.NeedFiles | packages.NeedCompiledGoFiles | packages.NeedImports |
				packages.NeedDeps | packages.NeedTypes | packages.NeedSyntax | packages.NeedTypesInfo | packages.NeedTypesSizes | packages.NeedModule,
			Dir:     repoDir,
			Overlay: ov,
			Env:     append(os.Environ(), "GOFLAGS=-mod=mod", "GOPROXY=off", "GOSUMDB=off", "GOTOOLCHAIN=local"),
		}
		initial, err = packages.Load(cfg, repoPkgs...)
		if err != nil {
			return nil, err
		}
		p = &Program{byPath: map[string]*ssa.Package{}, harness: map[string]*ssa.Function{}, repoDir: repoDir, overlay: ov}
		for _, ip := range initial {
			for _, e := range ip.Errors {
				p.loadErrs = append(p.loadErrs, e.Error())
			}
		}
		if len(p.loadErrs) == 0 {
			break
		}
		// errors located in harness files (not the API twins) exclude those files; anything else,
		// or no progress, is a tree that cannot be judged
		progress := false
		for _, msg := range p.loadErrs {
			m := errPosRe.FindStringSubmatch(msg)
			if m == nil {
				continue
			}
			rel, err := filepath.Rel(repoDir, m[1])
			base := filepath.Base(m[1])
			if err != nil || !strings.HasPrefix(base, "zz_verif_") || base == "zz_verif_api.go" || base == "zz_verif_api_prom.go" {
				continue
			}
			if _, inOverlay := ov[m[1]]; !inOverlay {
				continue
			}
			if _, done := excludedHarness[rel]; !done {
				excludedHarness[rel] = msg
				progress = true
			}
		}
		if !progress || attempt > 12 {
			return p, fmt.Errorf("package errors: %s", strings.Join(p.loadErrs, "; "))
		}
	}
	prog, _ := ssautil.AllPackages(initial, ssa.InstantiateGenerics)
	prog.Build()
	p.ssa = prog
	p.fset = prog.Fset
	for _, sp := range prog.AllPackages() {
		p.pkgs = append(p.pkgs, sp)
		p.byPath[sp.Pkg.Path()] = sp
		for name, m := range sp.Members {
			if fn, ok := m.(*ssa.Function); ok && strings.HasPrefix(name, "VH_") {
				p.harness[name] = fn
			}
		}
	}
	if rt := p.byPath["runtime"]; rt != nil {
		if tm := rt.Members["TypeAssertionError"]; tm != nil {
			p.runtimeErrType = types.NewPointer(tm.Type())
		}
	}
	p.intr = map[string]intrinsicFn{}
	registerIntrinsics(p)
	return p, nil
}

func (p *Program) harnessFn(name string) *ssa.Function { return p.harness[name] }

func (p *Program) namedType(pkg, name string) types.Type {
	sp := p.byPath[pkg]
	if sp == nil {
		panic(unsupported{"package not loaded: " + pkg})
	}
	m := sp.Members[name]
	if m == nil {
		panic(unsupported{"type not found: " + pkg + "." + name})
	}
	return m.Type()
}

func (p *Program) funcByName(pkg, name string) *ssa.Function {
	sp := p.byPath[pkg]
	if sp == nil {
		return nil
	}
	fn, _ := sp.Members[name].(*ssa.Function)
	return fn
}

type methKey struct {
	t types.Type
	m *types.Func
}

func (p *Program) lookupMethod(t types.Type, m *types.Func) *ssa.Function {
	key := t.String() + "|" + m.Name() + "|" + pkgPathOf(m)
	if v, ok := p.methodCache.Load(key); ok {
		return v.(*ssa.Function)
	}
	ms := p.ssa.MethodSets.MethodSet(t)
	sel := ms.Lookup(m.Pkg(), m.Name())
	if sel == nil {
		return nil
	}
	fn := p.ssa.MethodValue(sel)
	if fn != nil {
		p.methodCache.Store(key, fn)
	}
	return fn
}

func (p *Program) lookupMethodByName(t types.Type, pkg *types.Package, name string) *ssa.Function {
	ms := p.ssa.MethodSets.MethodSet(t)
	sel := ms.Lookup(pkg, name)
	if sel == nil {
		return nil
	}
	return p.ssa.MethodValue(sel)
}

func pkgPathOf(m *types.Func) string {
	if m.Pkg() == nil {
		return ""
	}
	return m.Pkg().Path()
}

func (p *Program) implements(t types.Type, it *types.Interface) bool {
	return types.Implements(t, it)
}

func (p *Program) intrinsic(name string, fn *ssa.Function) (intrinsicFn, bool) {
	h, ok := p.intr[name]
	if ok {
		return h, true
	}
	if target, ok := redirects[name]; ok {
		for _, sp := range p.pkgs {
			if !strings.HasPrefix(sp.Pkg.Path(), repoMod) {
				continue
			}
			if tf, ok := sp.Members[target].(*ssa.Function); ok && tf.Blocks != nil {
				return func(e *Exec, g *G, a []Value) Value { return tailCall{fn: &FuncV{Fn: tf}, args: a} }, true
			}
		}
	}
	if vn, isV := verifName(fn); isV {
		if h, ok := p.intr[vn]; ok {
			return h, true
		}
	}
	if fn != nil && fn.Pkg != nil {
		// package-wide policies
		switch fn.Pkg.Pkg.Path() {
		case "log/slog":
			return slogPolicy(p, fn), true
		case "log":
			return noopPolicy(p, fn), true
		}
	}
	return nil, false
}

func (p *Program) hasIntrinsic(name string, fn *ssa.Function) bool {
	_, ok := p.intrinsic(name, fn)
	return ok
}

// ---------------------------------------------------------------------------
// globals

type Poison struct{ why string }

// redirects: environment entry points that a harness may model in Go. The symbolic run calls the
// harness function instead of the real one; the native replay rewrites the same call sites in an
// overlay copy of the package sources (replay.go), so both runs use the same model.
type redirect struct {
	ssaName string // full name of the real function
	srcText string // call text in the repository sources
	target  string // harness function (in a repo package)
	keep    string // line appended to a rewritten file so the import stays used
}

var redirectList = []redirect{
	{"net.ListenPacket", "net.ListenPacket(", "verifListenPacket", ""},
	{"os.ReadFile", "os.ReadFile(", "verifReadFile", ""},
	{"gopkg.in/yaml.v3.Unmarshal", "yaml.Unmarshal(", "verifYAMLUnmarshal", "var _ = yaml.Unmarshal"},
	{"(*github.com/Jigsaw-Code/outline-sdk/transport.TCPDialer).DialStream", "", "", ""},
}

var redirects = func() map[string]string {
	m := map[string]string{}
	for _, r := range redirectList {
		if r.target != "" {
			m[r.ssaName] = r.target
		}
	}
	return m
}()

func (e *Exec) global(g *ssa.Global) *Cell {
	if c, ok := e.globals[g]; ok {
		return c
	}
	t := g.Type().(*types.Pointer).Elem()
	c := e.newCell(t)
	c.Name = g.String()
	e.globals[g] = c
	if g.Pkg != nil {
		e.ensureInit(g.Pkg)
	}
	return c
}

// ensureInit executes the package initialiser (variable initialisers and init functions of this
// package only) in tolerant mode: an initialiser the engine cannot execute leaves a Poison value.
func (e *Exec) ensureInit(pkg *ssa.Package) {
	if e.initDone[pkg] {
		return
	}
	e.initDone[pkg] = true
	initFn := pkg.Func("init")
	if initFn == nil || initFn.Blocks == nil {
		return
	}
	if skipInit[pkg.Pkg.Path()] {
		return
	}
	savedCur := e.cur
	savedInit := e.initing
	e.initing = true
	g := &G{id: -1 - len(e.initDone), name: "init:" + pkg.Pkg.Path(), vc: VC{}}
	e.pushFrame(g, initFn, nil, nil)
	base := g.frames[0]
	steps := 0
	e.cur = g
	for g.status != GDone && len(g.frames) > 0 {
		if steps > 3_000_000 {
			e.incon = append(e.incon, "init of "+pkg.Pkg.Path()+" did not finish")
			break
		}
		func() {
			defer func() {
				if r := recover(); r != nil {
					if _, ok := r.(pathEnd); ok {
						panic(r)
					}
					if _, ok := r.(solverDied); ok {
						panic(r)
					}
					// tolerate: poison the top-level instruction under execution
					top := base
					g.frames = g.frames[:1]
					g.panic = nil
					g.status = GRunnable
					top.unwinding = false
					top.defers = nil
					if topInstr := e.initTopInstr; topInstr != nil {
						if v, ok := topInstr.(ssa.Value); ok {
							top.env[v] = Poison{fmt.Sprint(r)}
						}
						if top.block == e.initTopBlock && top.ip == e.initTopIP {
							top.ip++
						}
					}
				}
			}()
			for g.status != GDone && len(g.frames) > 0 && steps <= 3_000_000 {
				steps++
				if len(g.frames) == 1 && !base.unwinding && base.ip < len(base.block.Instrs) {
					curInstr := base.block.Instrs[base.ip]
					// skip dependency initialisers
					if call, ok := curInstr.(*ssa.Call); ok {
						if callee := call.Call.StaticCallee(); callee != nil && callee.Name() == "init" && callee.Synthetic != "" && callee.Pkg != pkg {
							base.ip++
							continue
						}
					}
					e.initTopInstr, e.initTopIP, e.initTopBlock = curInstr, base.ip, base.block
				}
				e.step(g)
				if g.panic != nil && len(g.frames) == 1 && base.unwinding && len(base.defers) == 0 {
					// a panic reached the initialiser: poison and continue
					g.panic = nil
					base.unwinding = false
					if v, ok := e.initTopInstr.(ssa.Value); ok {
						base.env[v] = Poison{"panic in initialiser"}
					}
					if base.block == e.initTopBlock && base.ip == e.initTopIP {
						base.ip++
					}
				}
			}
		}()
	}
	e.cur = savedCur
	e.initing = savedInit
	if os.Getenv("VERIF_INITSTATS") != "" {
		fmt.Fprintf(os.Stderr, "init %s: %d steps\n", pkg.Pkg.Path(), steps)
	}
}

var skipInit = map[string]bool{
	"runtime": true, "os": true, "syscall": true, "unicode": true, "reflect": true, "internal/poll": true,
	"internal/godebug": true, "crypto/internal/boring": true, "vendor/golang.org/x/sys/cpu": true, "internal/cpu": true,
}

// callSync runs fn to completion on a temporary goroutine and returns its result.
func (e *Exec) callSync(fn *ssa.Function, args []Value, env []Value) Value {
	saved := e.cur
	g := &G{id: -1000 - e.nextG, name: "sync:" + fn.Name(), vc: VC{}}
	if saved != nil {
		g.vc = saved.vc
		g.held = saved.held
		g.id = saved.id
	}
	var result Value
	fr := e.pushFrame(g, fn, args, env)
	fr.onReturn = func(v Value) { result = v }
	for g.status != GDone && len(g.frames) > 0 {
		e.cur = g
		if g.status == GBlocked {
			panic(unsupported{"blocking operation inside synchronous model call " + fn.String()})
		}
		e.steps++
		e.step(g)
	}
	if g.crashed {
		panic(unsupported{"panic inside synchronous model call " + fn.String()})
	}
	e.cur = saved
	return result
}

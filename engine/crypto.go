package main

// Ideal-AEAD, HKDF/HMAC/MD5 and randomness models.

import (
	"crypto/hmac"
	"crypto/md5"
	"crypto/sha1"
	"crypto/sha256"
	"crypto/sha512"
	"encoding/hex"
	"fmt"
	"go/types"
)

type aeadInst struct {
	class string  // cipher spec identity + secret bytes (hex)
	salt  []*Term // concrete length
}

type sealRec struct {
	class string
	salt  []*Term
	nonce []*Term
	pt    []*Term
	ct    []*Term // ciphertext || tag
	id    int
}

type aeadState struct {
	inst    map[*Cell]*aeadInst
	recs    []*sealRec
	hkdf    map[*Cell]*hkdfInst
	hmacs   map[*Cell]*hmacInst
	digests map[string][]*Term
	havoc   bool // Open succeeds nondeterministically with arbitrary plaintext (over-approximation)
}

type hkdfInst struct {
	secret, salt, info []byte
	pos                int
	stream             []byte
}

type hmacInst struct {
	key  []*Term
	data []*Term
}

func (e *Exec) aeadSt() *aeadState {
	if e.aead == nil {
		e.aead = &aeadState{inst: map[*Cell]*aeadInst{}, hkdf: map[*Cell]*hkdfInst{}, hmacs: map[*Cell]*hmacInst{}}
	}
	return e.aead
}

func concBytes(ts []*Term) ([]byte, bool) {
	b := make([]byte, len(ts))
	for i, t := range ts {
		if !t.IsConst() {
			return nil, false
		}
		b[i] = byte(t.Val)
	}
	return b, true
}

func hkdfExpand(secret, salt, info []byte, n int) []byte {
	if salt == nil {
		salt = make([]byte, sha1.Size)
	}
	ext := hmac.New(sha1.New, salt)
	ext.Write(secret)
	prk := ext.Sum(nil)
	var out, prev []byte
	for c := byte(1); len(out) < n; c++ {
		h := hmac.New(sha1.New, prk)
		h.Write(prev)
		h.Write(info)
		h.Write([]byte{c})
		prev = h.Sum(nil)
		out = append(out, prev...)
	}
	return out[:n]
}

const ssPkg = "github.com/Jigsaw-Code/outline-sdk/transport/shadowsocks"
const chachaT = "golang.org/x/crypto/chacha20poly1305"

func (e *Exec) termsEq(a, b []*Term) *Term {
	if len(a) != len(b) {
		return e.tc.Bool(false)
	}
	var cs []*Term
	for i := range a {
		cs = append(cs, e.tc.Eq(a[i], b[i]))
	}
	return e.tc.And(cs...)
}

func registerCrypto(p *Program) {
	p.reg("crypto/rand.Read", func(e *Exec, g *G, a []Value) Value {
		s := a[0].(SliceV)
		e.randCalls++
		if e.randCalls-1 == e.randFaultAt {
			return TupleV{e.tc.Const(64, 0), e.errValue("injected failure of the random source")}
		}
		if s.IsNil() {
			return TupleV{e.tc.Const(64, 0), IfaceV{}}
		}
		e.accessArr(s.A, true)
		e.arrHavoc(s.A, s.Off, s.Len, "rand")
		return TupleV{s.Len, IfaceV{}}
	})
	p.reg("verif:verifRandFaultAt", func(e *Exec, g *G, a []Value) Value {
		e.randFaultAt = int(a[0].(*Term).SVal())
		e.randCalls = 0
		return nil
	})
	// structural freshness: corresponding bytes of a and b are different terms, not both constant
	p.reg("verif:verifFreshBytes", func(e *Exec, g *G, a []Value) Value {
		x, y := e.sliceTerms(a[0].(SliceV)), e.sliceTerms(a[1].(SliceV))
		if len(x) != len(y) {
			return e.tc.Bool(true)
		}
		for i := range x {
			if x[i] == y[i] || (x[i].IsConst() && y[i].IsConst()) {
				return e.tc.Bool(false)
			}
		}
		return e.tc.Bool(true)
	})
	p.reg(ssPkg+".simpleEVPBytesToKey", func(e *Exec, g *G, a []Value) Value {
		data, ok := concBytes(e.sliceTerms(a[0].(SliceV)))
		if !ok {
			panic(unsupported{"key derivation from symbolic secret"})
		}
		keyLen := int(e.concretize(a[1].(*Term), "keyLen"))
		var derived, di []byte
		h := md5.New()
		for len(derived) < keyLen {
			h.Write(di)
			h.Write(data)
			derived = h.Sum(derived)
			di = derived[len(derived)-h.Size():]
			h.Reset()
		}
		return TupleV{e.bytesSliceFromConcrete(derived[:keyLen]), IfaceV{}}
	})
	p.reg("(*"+ssPkg+".EncryptionKey).NewAEAD", func(e *Exec, g *G, a []Value) Value {
		st := e.aeadSt()
		kc := a[0].(PtrV).C
		spec := e.load(kc.F[0]).(PtrV)
		secret, ok := concBytes(e.sliceTerms(e.load(kc.F[1]).(SliceV)))
		if !ok {
			panic(unsupported{"symbolic key secret"})
		}
		// the cipher spec is identified by its sizes (key, salt, tag) and constructor identity
		specKey := fmt.Sprintf("spec#%d", spec.C.ID)
		salt := e.sliceTerms(a[1].(SliceV))
		t := types.NewPointer(e.prog.namedType(chachaT, "chacha20poly1305"))
		c := e.newCell(t.Elem())
		st.inst[c] = &aeadInst{class: specKey + ":" + hex.EncodeToString(secret), salt: salt}
		return TupleV{IfaceV{T: t, V: PtrV{C: c}}, IfaceV{}}
	})
	cc := "(*" + chachaT + ".chacha20poly1305)"
	p.reg(cc+".NonceSize", func(e *Exec, g *G, a []Value) Value { return e.tc.Const(64, 12) })
	p.reg(cc+".Overhead", func(e *Exec, g *G, a []Value) Value { return e.tc.Const(64, 16) })
	p.reg(cc+".Seal", func(e *Exec, g *G, a []Value) Value {
		st := e.aeadSt()
		inst := st.inst[a[0].(PtrV).C]
		dst, nonce, pt := a[1].(SliceV), a[2].(SliceV), a[3].(SliceV)
		if !e.aeadOverlapOK(g, dst, pt) {
			return panicked{}
		}
		if nl := e.sliceTerms(nonce); len(nl) != 12 {
			e.raise(g, IfaceV{T: types.Typ[types.String], V: concStr("chacha20poly1305: bad nonce length passed to Seal")}, "bad nonce length passed to Seal", false)
			return panicked{}
		}
		if st.havoc {
			// length-only model: ciphertext and tag are arbitrary bytes, lengths stay symbolic
			tc := e.tc
			n := tc.Bin(OAdd, pt.Len, tc.Const(64, 16))
			dl, dc := dst.Len, dst.Cap
			if dst.IsNil() {
				dl, dc = tc.Const(64, 0), tc.Const(64, 0)
			}
			total := tc.Bin(OAdd, dl, n)
			if !dst.IsNil() && e.branch(tc.Cmp(OULE, total, dc), "seal-fits") {
				e.arrHavoc(dst.A, tc.Bin(OAdd, dst.Off, dl), n, "ct")
				return SliceV{A: dst.A, Elem: dst.Elem, Off: dst.Off, Len: total, Cap: dst.Cap}
			}
			nn := int(e.concretize(total, "seal result length"))
			ns := e.makeSlice(types.Typ[types.Byte], tc.Const(64, uint64(nn)), nn)
			if !dst.IsNil() {
				e.builtinCopy(ns, dst)
			}
			e.arrHavoc(ns.A, dl, n, "ct")
			return ns
		}
		ptT := e.sliceTerms(pt) // concretises the plaintext length
		// ciphertext body: arbitrary bytes; tag: a concrete value unique to this Seal, so two
		// different encryptions are never equal (their collision probability is negligible) while
		// attacker-chosen bytes may still equal a recorded ciphertext (a replay)
		ct := make([]*Term, len(ptT)+16)
		for i := range ptT {
			ct[i] = e.fresh("ct", BV(8))
		}
		tagSum := sha1.Sum([]byte(fmt.Sprintf("seal-tag-%d", len(st.recs))))
		for i := 0; i < 16; i++ {
			ct[len(ptT)+i] = e.tc.Const(8, uint64(tagSum[i]))
		}
		rec := &sealRec{class: inst.class, salt: inst.salt, nonce: e.sliceTerms(nonce), pt: ptT, ct: ct, id: len(st.recs)}
		st.recs = append(st.recs, rec)
		e.trace = append(e.trace, fmt.Sprintf("Seal#%d class=%s ptlen=%d", rec.id, shortClass(inst.class), len(ptT)))
		return e.builtinAppend(g, dst, e.bytesSliceFromTerms(ct))
	})
	p.reg(cc+".Open", func(e *Exec, g *G, a []Value) Value {
		st := e.aeadSt()
		inst := st.inst[a[0].(PtrV).C]
		dst, nonce, ctS := a[1].(SliceV), a[2].(SliceV), a[3].(SliceV)
		fail := func() Value {
			// failure may leave garbage in dst's spare capacity (AES-GCM zeroes it, chacha does not)
			if !dst.IsNil() && !ctS.IsNil() {
				n := e.tc.Bin(OSub, ctS.Len, e.tc.Const(64, 16))
				room := e.tc.Bin(OSub, dst.Cap, dst.Len)
				n = e.tc.Ite(e.tc.Cmp(OULT, room, n), room, n)
				e.arrHavoc(dst.A, e.tc.Bin(OAdd, dst.Off, dst.Len), n, "openfail")
			}
			return TupleV{SliceV{Elem: types.Typ[types.Byte]}, e.errValue("cipher: message authentication failed")}
		}
		if e.tc.Cmp(OULT, ctS.Len, e.tc.Const(64, 16)).IsTrue() {
			return fail()
		}
		ct := e.sliceTerms(ctS)
		if len(ct) < 16 {
			return fail()
		}
		if !e.aeadOverlapOK(g, dst, SliceV{A: ctS.A, Off: ctS.Off, Len: e.tc.Const(64, uint64(len(ct)-16)), Cap: ctS.Cap, Elem: ctS.Elem}) {
			return panicked{}
		}
		nT := e.sliceTerms(nonce)
		if st.havoc {
			if e.branch(e.input("open-ok", BoolS), "havoc-open") {
				pt := make([]*Term, len(ct)-16)
				for i := range pt {
					pt[i] = e.input(fmt.Sprintf("open-pt[%d]", i), BV(8))
				}
				return TupleV{e.builtinAppend(g, dst, e.bytesSliceFromTerms(pt)), IfaceV{}}
			}
			return fail()
		}
		for _, r := range st.recs {
			if r.class != inst.class || len(r.ct) != len(ct) {
				continue
			}
			c := e.tc.And(e.termsEq(r.salt, inst.salt), e.termsEq(r.nonce, nT), e.termsEq(r.ct, ct))
			if e.branch(c, "aead-open-match") {
				e.trace = append(e.trace, fmt.Sprintf("Open matches Seal#%d", r.id))
				if len(r.pt) == 0 {
					if dst.IsNil() {
						// append(nil[:0]) of nothing: Go returns dst (nil) — callers get an empty slice
						return TupleV{dst, IfaceV{}}
					}
					return TupleV{dst, IfaceV{}}
				}
				return TupleV{e.builtinAppend(g, dst, e.bytesSliceFromTerms(r.pt)), IfaceV{}}
			}
		}
		return fail()
	})
	// AES-GCM is constructed through newAesGCM(key): model it with the same ideal object.
	p.reg(ssPkg+".newAesGCM", func(e *Exec, g *G, a []Value) Value {
		panic(unsupported{"newAesGCM reached directly (NewAEAD is modelled)"})
	})

	// HKDF (only with concrete inputs: NewServerSaltGenerator(secret))
	p.reg("golang.org/x/crypto/hkdf.New", func(e *Exec, g *G, a []Value) Value {
		st := e.aeadSt()
		secret, ok1 := concBytes(e.sliceTerms(a[1].(SliceV)))
		salt, ok2 := concBytes(e.sliceTerms(a[2].(SliceV)))
		info, ok3 := concBytes(e.sliceTerms(a[3].(SliceV)))
		if !ok1 || !ok2 || !ok3 {
			panic(unsupported{"hkdf with symbolic inputs"})
		}
		if a[2].(SliceV).IsNil() {
			salt = nil
		}
		t := types.NewPointer(e.prog.namedType("golang.org/x/crypto/hkdf", "hkdf"))
		c := e.newCell(t.Elem())
		st.hkdf[c] = &hkdfInst{secret: secret, salt: salt, info: info}
		return IfaceV{T: t, V: PtrV{C: c}}
	})
	p.reg("(*golang.org/x/crypto/hkdf.hkdf).Read", func(e *Exec, g *G, a []Value) Value {
		st := e.aeadSt()
		h := st.hkdf[a[0].(PtrV).C]
		dst := a[1].(SliceV)
		n := int(e.concretize(dst.Len, "hkdf read length"))
		if len(h.stream) < h.pos+n {
			h.stream = hkdfExpand(h.secret, h.salt, h.info, h.pos+n)
		}
		src := e.bytesSliceFromConcrete(h.stream[h.pos : h.pos+n])
		h.pos += n
		e.builtinCopy(dst, src)
		return TupleV{e.tc.Const(64, uint64(n)), IfaceV{}}
	})
	p.reg("(crypto.Hash).Size", func(e *Exec, g *G, a []Value) Value {
		sizes := map[uint64]uint64{2: 16, 3: 20, 4: 28, 5: 32, 6: 48, 7: 64}
		h := a[0].(*Term)
		if v, ok := sizes[h.Val]; ok && h.IsConst() {
			return e.tc.Const(64, v)
		}
		panic(unsupported{"crypto.Hash.Size of unknown hash"})
	})
	// one-shot digests (sha256.Sum256, sha1.Sum, md5.Sum, sha512.Sum512): computed on concrete
	// data; on symbolic data an arbitrary but deterministic digest (same terms, same digest)
	sumFn := func(name string, size int, native func([]byte) []byte) {
		p.reg(name, func(e *Exec, g *G, a []Value) Value {
			in := e.sliceTerms(a[0].(SliceV))
			arr := e.newArr(8, size)
			if b, ok := concBytes(in); ok {
				for i, x := range native(b) {
					e.arrWrite(arr, e.tc.Const(64, uint64(i)), e.tc.Const(8, uint64(x)))
				}
				return &ArrayV{SA: arr}
			}
			key := name
			for _, t := range in {
				key += fmt.Sprintf("|%p", t)
			}
			st := e.aeadSt()
			if st.digests == nil {
				st.digests = map[string][]*Term{}
			}
			d, ok := st.digests[key]
			if !ok {
				for i := 0; i < size; i++ {
					d = append(d, e.fresh("digest", BV(8)))
				}
				st.digests[key] = d
			}
			for i, t := range d {
				e.arrWrite(arr, e.tc.Const(64, uint64(i)), t)
			}
			return &ArrayV{SA: arr}
		})
	}
	sumFn("crypto/sha256.Sum256", 32, func(b []byte) []byte { x := sha256.Sum256(b); return x[:] })
	sumFn("crypto/sha1.Sum", 20, func(b []byte) []byte { x := sha1.Sum(b); return x[:] })
	sumFn("crypto/md5.Sum", 16, func(b []byte) []byte { x := md5.Sum(b); return x[:] })
	sumFn("crypto/sha512.Sum512", 64, func(b []byte) []byte { x := sha512.Sum512(b); return x[:] })
	// HMAC-SHA1 as an uninterpreted function of (key, message)
	p.reg("crypto/hmac.New", func(e *Exec, g *G, a []Value) Value {
		st := e.aeadSt()
		key := e.sliceTerms(a[1].(SliceV))
		t := types.NewPointer(e.prog.namedType("crypto/hmac", "hmac"))
		c := e.newCell(t.Elem())
		st.hmacs[c] = &hmacInst{key: key}
		return IfaceV{T: t, V: PtrV{C: c}}
	})
	p.reg("(*crypto/hmac.hmac).Reset", func(e *Exec, g *G, a []Value) Value {
		st := e.aeadSt()
		c := a[0].(PtrV).C
		e.access(c, nil, true) // the hash state is ordinary shared memory
		st.hmacs[c].data = nil
		return nil
	})
	p.reg("(*crypto/hmac.hmac).Write", func(e *Exec, g *G, a []Value) Value {
		st := e.aeadSt()
		e.access(a[0].(PtrV).C, nil, true)
		h := st.hmacs[a[0].(PtrV).C]
		d := e.sliceTerms(a[1].(SliceV))
		h.data = append(h.data, d...)
		return TupleV{e.tc.Const(64, uint64(len(d))), IfaceV{}}
	})
	p.reg("(*crypto/hmac.hmac).Sum", func(e *Exec, g *G, a []Value) Value {
		st := e.aeadSt()
		e.access(a[0].(PtrV).C, nil, true) // Sum runs the inner and outer hashes in place
		h := st.hmacs[a[0].(PtrV).C]
		out := make([]*Term, 20)
		kb, kok := concBytes(h.key)
		db, dok := concBytes(h.data)
		if kok && dok {
			m := hmac.New(sha1.New, kb)
			m.Write(db)
			sum := m.Sum(nil)
			for i := range out {
				out[i] = e.tc.Const(8, uint64(sum[i]))
			}
		} else {
			if !kok {
				panic(unsupported{"hmac with symbolic key"})
			}
			name := fmt.Sprintf("hmac_%s_n%d", hex.EncodeToString(kb)[:16], len(h.data))
			for i := range out {
				out[i] = e.tc.UF(fmt.Sprintf("%s_b%d", name, i), BV(8), h.data...)
			}
		}
		return e.builtinAppend(g, a[1].(SliceV), e.bytesSliceFromTerms(out))
	})
}

func shortClass(c string) string {
	if len(c) > 28 {
		return c[:28]
	}
	return c
}

// aeadOverlapOK models crypto/internal/alias.InexactOverlap: in-place operation requires the
// output to start exactly at the input, otherwise the real implementations panic.
func (e *Exec) aeadOverlapOK(g *G, dst, src SliceV) bool {
	if dst.IsNil() || src.IsNil() || dst.A != src.A {
		return true
	}
	tc := e.tc
	// out = dst[len(dst):cap(dst)] (at most len(src)+16), in = src
	outStart := tc.Bin(OAdd, dst.Off, dst.Len)
	outLen := tc.Bin(OAdd, src.Len, tc.Const(64, 16))
	inStart := src.Off
	inLen := src.Len
	empty := tc.Or(tc.Eq(inLen, tc.Const(64, 0)), tc.Eq(outLen, tc.Const(64, 0)))
	same := tc.Eq(outStart, inStart)
	disjoint := tc.Or(tc.Cmp(OULE, tc.Bin(OAdd, outStart, outLen), inStart), tc.Cmp(OULE, tc.Bin(OAdd, inStart, inLen), outStart))
	ok := tc.Or(empty, same, disjoint)
	if !e.check(g, ok, "crypto/cipher: invalid buffer overlap") {
		return false
	}
	return true
}

package main

// Resident SMT solver process (z3 -in). One Solver per worker; (reset) per run.

import (
	"bufio"
	"context"
	"fmt"
	"io"
	"os"
	"os/exec"
	"strconv"
	"strings"
	"time"
)

type Result int

const (
	RUnsat Result = iota
	RSat
	RUnknown
)

func (r Result) String() string { return [...]string{"unsat", "sat", "unknown"}[r] }

type Solver struct {
	bin       string
	args      []string
	cmd       *exec.Cmd
	in        io.WriteCloser
	out       *bufio.Reader
	emitted   map[int]bool
	timeoutMs int
	log       *strings.Builder // optional transcript of current run (for samples)
	keepLog   bool

	// stats
	nSat, nUnsat, nUnknown int
	solveTime              time.Duration
	lastQuery              string
	label                  string
	alt                    string
	byLabel                map[string]time.Duration
	nAlt                   int
}

func NewSolver(bin string, timeoutMs int) *Solver {
	s := &Solver{bin: bin, timeoutMs: timeoutMs}
	switch {
	case strings.Contains(bin, "cvc5"):
		s.args = []string{"--incremental", "--lang=smt2", "--produce-models"}
	default:
		s.args = []string{"-in"}
	}
	s.start()
	return s
}

func (s *Solver) start() {
	s.cmd = exec.Command(s.bin, s.args...)
	in, _ := s.cmd.StdinPipe()
	out, _ := s.cmd.StdoutPipe()
	s.cmd.Stderr = nil
	if err := s.cmd.Start(); err != nil {
		panic(fmt.Sprintf("cannot start solver %s: %v", s.bin, err))
	}
	s.in = in
	s.out = bufio.NewReaderSize(out, 1<<20)
	s.emitted = map[int]bool{}
}

func (s *Solver) Close() {
	if s.cmd != nil {
		s.in.Close()
		s.cmd.Process.Kill()
		s.cmd.Wait()
		s.cmd = nil
	}
}

func (s *Solver) send(line string) {
	if s.log != nil && s.log.Len() < 16<<20 {
		s.log.WriteString(line)
		s.log.WriteString("\n")
	}
	if _, err := io.WriteString(s.in, line+"\n"); err != nil {
		panic(solverDied{err.Error()})
	}
}

type solverDied struct{ msg string }

// retryAlt re-decides the current query (context + pending push) on the alternate solver.
func (s *Solver) retryAlt() Result {
	var sb strings.Builder
	for _, line := range strings.Split(s.log.String(), "\n") {
		if strings.HasPrefix(line, "(check-sat") || strings.HasPrefix(line, "(get-value") || strings.HasPrefix(line, "(reset") {
			continue
		}
		sb.WriteString(line)
		sb.WriteString("\n")
	}
	sb.WriteString("(check-sat)\n")
	ctx, cancel := context.WithTimeout(context.Background(), time.Duration(s.timeoutMs+5000)*time.Millisecond)
	defer cancel()
	cmd := exec.CommandContext(ctx, s.alt, "-in")
	cmd.Stdin = strings.NewReader(sb.String())
	out, _ := cmd.Output()
	s.nAlt++
	txt := strings.TrimSpace(string(out))
	if strings.Contains(txt, "(error") {
		return RUnknown
	}
	lines := strings.Split(txt, "\n")
	switch strings.TrimSpace(lines[len(lines)-1]) {
	case "sat":
		// a model is needed from the primary; report unknown unless primary can produce it
		return RUnknown
	case "unsat":
		return RUnsat
	}
	return RUnknown
}

var slowN int

// Reset starts a fresh context for a new run.
func (s *Solver) Reset() {
	if s.cmd == nil {
		s.start()
	}
	s.emitted = map[int]bool{}
	s.log = &strings.Builder{}
	s.send("(reset)")
	if !strings.Contains(s.bin, "cvc5") {
		s.send(fmt.Sprintf("(set-option :timeout %d)", s.timeoutMs))
	}
	s.send("(set-option :produce-models true)")
}

func (s *Solver) emit(t *Term) {
	if t.Op == OConst || s.emitted[t.ID] {
		return
	}
	// iterative post-order to survive very deep terms
	type fr struct {
		t *Term
		i int
	}
	stack := []fr{{t, 0}}
	for len(stack) > 0 {
		f := &stack[len(stack)-1]
		if f.t.Op == OConst || s.emitted[f.t.ID] {
			stack = stack[:len(stack)-1]
			continue
		}
		if f.i < len(f.t.Args) {
			a := f.t.Args[f.i]
			f.i++
			if a.Op != OConst && !s.emitted[a.ID] {
				stack = append(stack, fr{a, 0})
			}
			continue
		}
		tt := f.t
		stack = stack[:len(stack)-1]
		s.emitted[tt.ID] = true
		switch tt.Op {
		case OVar:
			s.send(fmt.Sprintf("(declare-const %s %s)", tt.Name, tt.S.String()))
		case OUF:
			key := -1 - int(hashStr(tt.Name))
			if !s.emitted[key] {
				s.emitted[key] = true
				var sb strings.Builder
				for i, a := range tt.Args {
					if i > 0 {
						sb.WriteString(" ")
					}
					sb.WriteString(a.S.String())
				}
				s.send(fmt.Sprintf("(declare-fun %s (%s) %s)", tt.Name, sb.String(), tt.S.String()))
			}
			s.send(fmt.Sprintf("(define-fun t%d () %s %s)", tt.ID, tt.S.String(), body(tt)))
		default:
			s.send(fmt.Sprintf("(define-fun t%d () %s %s)", tt.ID, tt.S.String(), body(tt)))
		}
	}
}

func hashStr(s string) uint32 {
	h := uint32(2166136261)
	for i := 0; i < len(s); i++ {
		h ^= uint32(s[i])
		h *= 16777619
	}
	return h & 0x3fffffff
}

func (s *Solver) Assert(t *Term) {
	if t.IsTrue() {
		return
	}
	s.emit(t)
	s.send(fmt.Sprintf("(assert %s)", ref(t)))
}

func (s *Solver) readLine() string {
	line, err := s.out.ReadString('\n')
	if err != nil {
		s.Close()
		panic(solverDied{"solver closed: " + err.Error()})
	}
	return strings.TrimSpace(line)
}

// Check decides satisfiability of the asserted context plus extra (may be nil).
func (s *Solver) Check(extra *Term) Result {
	if extra != nil {
		if extra.IsFalse() {
			return RUnsat
		}
		s.emit(extra)
	}
	start := time.Now()
	s.send("(push 1)")
	if extra != nil && !extra.IsTrue() {
		s.send(fmt.Sprintf("(assert %s)", ref(extra)))
	}
	s.send("(check-sat)")
	var r Result
	for {
		line := s.readLine()
		if line == "" {
			continue
		}
		switch {
		case line == "sat":
			r = RSat
		case line == "unsat":
			r = RUnsat
		case line == "unknown" || strings.HasPrefix(line, "timeout"):
			r = RUnknown
		case strings.HasPrefix(line, "(error"):
			// an error line makes the query inconclusive; drain the check-sat answer too
			s.lastQuery = line
			r = RUnknown
			// after an error z3 still answers check-sat; keep reading until a verdict
			continue
		default:
			continue
		}
		break
	}
	if r == RUnknown && s.alt != "" && s.log != nil && s.log.Len() < 16<<20 {
		r = s.retryAlt()
	}
	s.solveTime += time.Since(start)
	if s.byLabel != nil {
		l := s.label
		if i := strings.Index(l, " ["); i > 0 {
			l = l[:i]
		}
		s.byLabel[l] += time.Since(start)
	}
	if d := time.Since(start); d > 3*time.Second && os.Getenv("VERIF_DEBUG") != "" {
		fmt.Fprintf(os.Stderr, "slow query %.1fs [%s] -> %v\n", d.Seconds(), s.label, r)
		if s.log != nil {
			slowN++
			os.WriteFile(fmt.Sprintf("/tmp/slow-%d-%d.smt2", os.Getpid(), slowN), []byte(s.log.String()), 0o644)
		}
	}
	switch r {
	case RSat:
		s.nSat++
	case RUnsat:
		s.nUnsat++
	default:
		s.nUnknown++
	}
	// caller may call Model() before Pop()
	return r
}

// Pop must follow every Check.
func (s *Solver) Pop() { s.send("(pop 1)") }

// Model returns values for the given variables (call between Check==sat and Pop).
func (s *Solver) Model(vars []*Term) map[string]uint64 {
	res := map[string]uint64{}
	const chunk = 200
	for i := 0; i < len(vars); i += chunk {
		j := i + chunk
		if j > len(vars) {
			j = len(vars)
		}
		var sb strings.Builder
		sb.WriteString("(get-value (")
		n := 0
		for _, v := range vars[i:j] {
			if !s.emitted[v.ID] || v.S.K == SArr {
				continue
			}
			sb.WriteString(v.Name + " ")
			n++
		}
		sb.WriteString("))")
		if n == 0 {
			continue
		}
		s.send(sb.String())
		txt := s.readSexp()
		parseModel(txt, res)
	}
	return res
}

// Eval returns the model value of a scalar term.
func (s *Solver) Eval(t *Term) (uint64, bool) {
	if t.IsConst() {
		return t.Val, true
	}
	s.emit(t)
	s.send(fmt.Sprintf("(get-value (%s))", ref(t)))
	txt := s.readSexp()
	i := strings.LastIndexAny(txt, "#tf")
	if i < 0 {
		return 0, false
	}
	// find value token after the term reference
	txt = strings.TrimSpace(txt)
	txt = strings.TrimSuffix(txt, "))")
	k := strings.LastIndex(txt, " ")
	if k < 0 {
		return 0, false
	}
	return parseVal(txt[k+1:])
}

func parseVal(tok string) (uint64, bool) {
	tok = strings.TrimSpace(tok)
	switch {
	case tok == "true":
		return 1, true
	case tok == "false":
		return 0, true
	case strings.HasPrefix(tok, "#x"):
		v, err := strconv.ParseUint(tok[2:], 16, 64)
		return v, err == nil
	case strings.HasPrefix(tok, "#b"):
		v, err := strconv.ParseUint(tok[2:], 2, 64)
		return v, err == nil
	}
	return 0, false
}

func (s *Solver) readSexp() string {
	var sb strings.Builder
	depth := 0
	started := false
	for {
		line := s.readLine()
		sb.WriteString(line)
		sb.WriteString(" ")
		for _, ch := range line {
			if ch == '(' {
				depth++
				started = true
			} else if ch == ')' {
				depth--
			}
		}
		if started && depth <= 0 {
			break
		}
	}
	return sb.String()
}

func parseModel(txt string, res map[string]uint64) {
	// ((name val) (name val) ...)
	txt = strings.ReplaceAll(txt, "(", " ( ")
	txt = strings.ReplaceAll(txt, ")", " ) ")
	toks := strings.Fields(txt)
	for i := 0; i+3 < len(toks); i++ {
		if toks[i] == "(" && toks[i+1] != "(" && toks[i+3] == ")" {
			if v, ok := parseVal(toks[i+2]); ok {
				res[toks[i+1]] = v
			}
		}
	}
}

package main

// Value and memory model of the symbolic interpreter.

import (
	"fmt"
	"go/types"

	"golang.org/x/tools/go/ssa"
)

type Value interface{}

// FloatV: floats are never reasoned about; they are carried as expression trees
// so that metric sinks can report which integer term they were derived from.
type FloatV struct {
	Known bool
	F     float64
	Op    string  // "secs" (Duration.Seconds of T), "ofint" (float64(T)), "mul","add","sub","div","neg"
	T     *Term   // for secs / ofint (64-bit)
	A, B  *FloatV // operands
}

type StrKind int

const (
	SConc     StrKind = iota // concrete Go string
	SBytes                   // concrete length, symbolic bytes
	SHostPort                // net.JoinHostPort(ip%zone, port)  (IP/Zone/Port)  or host = Host
	SIPText                  // textual IP (IP, Zone)
	SPortText                // decimal port (Port, 16 bit; also used for Itoa of a 64-bit term in Num)
	SOpaque                  // unknown text (logging only)
)

type StrV struct {
	Kind    StrKind
	S       string
	B       []*Term
	IP      []*Term // 4 or 16 bytes
	Zone    string
	Port    *Term // 16-bit
	Host    *StrV // non-IP host of a SHostPort
	ID      int
	Num     *Term // full-width number for SPortText produced by Itoa/Sprint
	lenTerm *Term
}

func concStr(s string) *StrV { return &StrV{Kind: SConc, S: s} }

type PtrV struct {
	C *Cell // pointer to a cell (variable, field, generic array element, whole array)
	A *Arr  // pointer to element I of scalar array A
	I *Term
}

func (p PtrV) IsNil() bool { return p.C == nil && p.A == nil }

type SliceV struct {
	A             *Arr    // scalar backing array (ints)
	G             *GenArr // generic backing array
	Off, Len, Cap *Term   // 64-bit
	Elem          types.Type
}

func (s SliceV) IsNil() bool { return s.A == nil && s.G == nil }

type StructV struct{ F []Value }

type ArrayV struct {
	E  []Value // generic arrays
	SA *Arr    // scalar arrays (private snapshot)
}

type IfaceV struct {
	T types.Type // dynamic type; nil => nil interface
	V Value
}

type FuncV struct {
	Fn    *ssa.Function
	Env   []Value
	Intr  string  // builtin/intrinsic name if not an SSA function
	Bound []Value // pre-bound leading args (for intrinsic-bound methods)
}

type TupleV []Value

type mapEntry struct {
	K, V Value
}

type MapV struct {
	KT, VT types.Type
	E      []*mapEntry
	ID     int
	// symbolic set (uint32 keys, zero-size values)
	Sym     bool
	Present *Term // Array BV64 -> BV8 (non-zero = present)
	SymLen  *Term // 64-bit
	sh      *shadow
}

type ChanV struct {
	ID     int
	Cap    int
	Buf    []Value
	Closed bool
	Elem   types.Type
	// vector clocks for happens-before
	vc      VC
	sendVCs []VC
}

// ---- memory ----

type Cell struct {
	T  types.Type
	V  Value
	F  []*Cell
	SA *Arr
	GA *GenArr
	ID int
	// race detection shadow state
	sh *shadow
	// debugging name
	Name string
}

type GenArr struct {
	Elem types.Type
	E    []*Cell
}

// Arr is an array of fixed-width integers with a sparse overlay of known cells over an
// optional SMT array base (nil base = all zero).
type Arr struct {
	EW   int
	N    int
	ov   map[int]*Term
	base *Term
	ID   int
	sh   *shadow
}

func isScalarElem(t types.Type) (int, bool) {
	if b, ok := t.Underlying().(*types.Basic); ok {
		switch b.Kind() {
		case types.Int8, types.Uint8:
			return 8, true
		case types.Int16, types.Uint16:
			return 16, true
		case types.Int32, types.Uint32:
			return 32, true
		case types.Int, types.Uint, types.Int64, types.Uint64, types.Uintptr:
			return 64, true
		}
	}
	return 0, false
}

func intWidth(t types.Type) (w int, signed bool, ok bool) {
	b, isb := t.Underlying().(*types.Basic)
	if !isb {
		return 0, false, false
	}
	switch b.Kind() {
	case types.Int8:
		return 8, true, true
	case types.Uint8:
		return 8, false, true
	case types.Int16:
		return 16, true, true
	case types.Uint16:
		return 16, false, true
	case types.Int32:
		return 32, true, true
	case types.Uint32:
		return 32, false, true
	case types.Int64, types.Int, types.UntypedInt, types.UntypedRune:
		return 64, true, true
	case types.Uint64, types.Uint, types.Uintptr:
		return 64, false, true
	}
	return 0, false, false
}

func isBool(t types.Type) bool {
	b, ok := t.Underlying().(*types.Basic)
	return ok && (b.Kind() == types.Bool || b.Kind() == types.UntypedBool)
}
func isString(t types.Type) bool {
	b, ok := t.Underlying().(*types.Basic)
	return ok && (b.Kind() == types.String || b.Kind() == types.UntypedString)
}
func isFloat(t types.Type) bool {
	b, ok := t.Underlying().(*types.Basic)
	return ok && (b.Kind() == types.Float32 || b.Kind() == types.Float64 || b.Kind() == types.UntypedFloat)
}

func (e *Exec) newArr(ew, n int) *Arr {
	e.nextID++
	return &Arr{EW: ew, N: n, ov: map[int]*Term{}, ID: e.nextID}
}

func (e *Exec) newCell(t types.Type) *Cell {
	e.nextID++
	c := &Cell{T: t, ID: e.nextID}
	switch u := t.Underlying().(type) {
	case *types.Struct:
		c.F = make([]*Cell, u.NumFields())
		for i := range c.F {
			c.F[i] = e.newCell(u.Field(i).Type())
		}
	case *types.Array:
		n := int(u.Len())
		if ew, ok := isScalarElem(u.Elem()); ok {
			c.SA = e.newArr(ew, n)
		} else {
			c.GA = &GenArr{Elem: u.Elem(), E: make([]*Cell, n)}
			for i := range c.GA.E {
				c.GA.E[i] = e.newCell(u.Elem())
			}
		}
	default:
		c.V = e.zero(t)
	}
	return c
}

func (e *Exec) zero(t types.Type) Value {
	switch u := t.Underlying().(type) {
	case *types.Basic:
		if w, _, ok := intWidth(t); ok {
			return e.tc.Const(w, 0)
		}
		if isBool(t) {
			return e.tc.Bool(false)
		}
		if isString(t) {
			return concStr("")
		}
		if isFloat(t) {
			return &FloatV{Known: true}
		}
		if u.Kind() == types.UnsafePointer {
			return PtrV{}
		}
		if u.Kind() == types.UntypedNil {
			return nil
		}
		panic(unsupported{"zero of basic " + t.String()})
	case *types.Pointer:
		return PtrV{}
	case *types.Slice:
		return SliceV{Elem: u.Elem()}
	case *types.Interface:
		return IfaceV{}
	case *types.Map:
		return (*MapV)(nil)
	case *types.Chan:
		return (*ChanV)(nil)
	case *types.Signature:
		return (*FuncV)(nil)
	case *types.Struct:
		s := &StructV{F: make([]Value, u.NumFields())}
		for i := range s.F {
			s.F[i] = e.zero(u.Field(i).Type())
		}
		return s
	case *types.Array:
		n := int(u.Len())
		if ew, ok := isScalarElem(u.Elem()); ok {
			return &ArrayV{SA: e.newArr(ew, n)}
		}
		a := &ArrayV{E: make([]Value, n)}
		for i := range a.E {
			a.E[i] = e.zero(u.Elem())
		}
		return a
	case *types.Tuple:
		tv := make(TupleV, u.Len())
		for i := range tv {
			tv[i] = e.zero(u.At(i).Type())
		}
		return tv
	}
	panic(unsupported{"zero of " + t.String()})
}

// ---- Arr operations ----

func (e *Exec) arrBase(a *Arr) *Term {
	b := a.base
	if b == nil {
		b = e.tc.ConstArr(a.EW, 0)
	}
	return b
}

// materialize folds the overlay into the SMT array base.
func (e *Exec) arrMaterialize(a *Arr) *Term {
	b := e.arrBase(a)
	if len(a.ov) > 0 {
		// deterministic order
		idx := make([]int, 0, len(a.ov))
		for i := range a.ov {
			idx = append(idx, i)
		}
		sortInts(idx)
		for _, i := range idx {
			b = e.tc.Store(b, e.tc.Const(64, uint64(i)), a.ov[i])
		}
		a.ov = map[int]*Term{}
	}
	a.base = b
	return b
}

func (e *Exec) arrRead(a *Arr, i *Term) *Term {
	if i.IsConst() {
		k := int(i.Val)
		if t, ok := a.ov[k]; ok {
			return t
		}
		if a.base == nil {
			return e.tc.Const(a.EW, 0)
		}
		return e.tc.Select(a.base, i)
	}
	e.stats.symIdxReads++
	// small overlays without base: ite chain is friendlier than arrays
	if a.base == nil && len(a.ov) <= 64 {
		res := e.tc.Const(a.EW, 0)
		idx := make([]int, 0, len(a.ov))
		for k := range a.ov {
			idx = append(idx, k)
		}
		sortInts(idx)
		for _, k := range idx {
			res = e.tc.Ite(e.tc.Eq(i, e.tc.Const(64, uint64(k))), a.ov[k], res)
		}
		return res
	}
	b := e.arrMaterialize(a)
	return e.tc.Select(b, i)
}

func (e *Exec) arrWrite(a *Arr, i *Term, v *Term) {
	if v.S.W != a.EW {
		panic(fmt.Sprintf("arrWrite width %d into %d", v.S.W, a.EW))
	}
	if i.IsConst() {
		a.ov[int(i.Val)] = v
		return
	}
	b := e.arrMaterialize(a)
	a.base = e.tc.Store(b, i, v)
}

// arrCopy copies n elements src[sOff..] -> dst[dOff..] (memmove semantics).
func (e *Exec) arrCopy(dst *Arr, dOff *Term, src *Arr, sOff *Term, n *Term) {
	if n.IsConst() && dOff.IsConst() && sOff.IsConst() {
		cnt := int(n.Val)
		tmp := make([]*Term, cnt)
		for k := 0; k < cnt; k++ {
			tmp[k] = e.arrRead(src, e.tc.Const(64, sOff.Val+uint64(k)))
		}
		for k := 0; k < cnt; k++ {
			dst.ov[int(dOff.Val)+k] = tmp[k]
		}
		return
	}
	if n.IsConst() && n.Val <= 64 {
		cnt := int(n.Val)
		tmp := make([]*Term, cnt)
		for k := 0; k < cnt; k++ {
			tmp[k] = e.arrRead(src, e.tc.Bin(OAdd, sOff, e.tc.Const(64, uint64(k))))
		}
		for k := 0; k < cnt; k++ {
			e.arrWrite(dst, e.tc.Bin(OAdd, dOff, e.tc.Const(64, uint64(k))), tmp[k])
		}
		return
	}
	e.stats.rangeCopies++
	sb := e.arrMaterialize(src)
	db := sb
	if dst != src {
		db = e.arrMaterialize(dst)
	}
	dst.base = e.tc.RangeCopy(db, sb, dOff, sOff, n)
}

// arrHavoc replaces dst[off:off+n] by fresh symbolic content.
func (e *Exec) arrHavoc(dst *Arr, off, n *Term, tag string) {
	if n.IsConst() && off.IsConst() && n.Val <= 4096 {
		for k := 0; k < int(n.Val); k++ {
			dst.ov[int(off.Val)+k] = e.fresh(tag, BV(dst.EW))
		}
		return
	}
	fr := e.fresh(tag+"_arr", ArrS(dst.EW))
	db := e.arrMaterialize(dst)
	dst.base = e.tc.RangeCopy(db, fr, off, e.tc.Const(64, 0), n)
}

func (e *Exec) arrClone(a *Arr) *Arr {
	n := e.newArr(a.EW, a.N)
	for k, v := range a.ov {
		n.ov[k] = v
	}
	n.base = a.base
	return n
}

func sortInts(a []int) {
	// insertion sort is fine for small, use stdlib otherwise
	if len(a) > 32 {
		quickSortInts(a)
		return
	}
	for i := 1; i < len(a); i++ {
		for j := i; j > 0 && a[j-1] > a[j]; j-- {
			a[j-1], a[j] = a[j], a[j-1]
		}
	}
}

func quickSortInts(a []int) {
	if len(a) < 2 {
		return
	}
	p := a[len(a)/2]
	i, j := 0, len(a)-1
	for i <= j {
		for a[i] < p {
			i++
		}
		for a[j] > p {
			j--
		}
		if i <= j {
			a[i], a[j] = a[j], a[i]
			i++
			j--
		}
	}
	quickSortInts(a[:j+1])
	quickSortInts(a[i:])
}

// ---- cell load/store ----

func (e *Exec) load(c *Cell) Value {
	if c.F != nil {
		s := &StructV{F: make([]Value, len(c.F))}
		for i, f := range c.F {
			s.F[i] = e.load(f)
		}
		return s
	}
	if c.SA != nil {
		e.access(c, nil, false)
		return &ArrayV{SA: e.arrClone(c.SA)}
	}
	if c.GA != nil {
		a := &ArrayV{E: make([]Value, len(c.GA.E))}
		for i, f := range c.GA.E {
			a.E[i] = e.load(f)
		}
		return a
	}
	e.access(c, nil, false)
	return c.V
}

func (e *Exec) store(c *Cell, v Value) {
	if c.F != nil {
		s, ok := v.(*StructV)
		if !ok {
			panic(fmt.Sprintf("store non-struct %T into struct cell %s", v, c.T))
		}
		for i, f := range c.F {
			e.store(f, s.F[i])
		}
		return
	}
	if c.SA != nil {
		e.access(c, nil, true)
		av := v.(*ArrayV)
		c.SA.ov = map[int]*Term{}
		for k, t := range av.SA.ov {
			c.SA.ov[k] = t
		}
		c.SA.base = av.SA.base
		return
	}
	if c.GA != nil {
		av := v.(*ArrayV)
		for i, f := range c.GA.E {
			e.store(f, av.E[i])
		}
		return
	}
	e.access(c, nil, true)
	c.V = v
}

func (e *Exec) loadPtr(p PtrV) Value {
	if p.C != nil {
		return e.load(p.C)
	}
	if p.A != nil {
		e.accessArr(p.A, false)
		return e.arrRead(p.A, p.I)
	}
	panic("loadPtr nil")
}

func (e *Exec) storePtr(p PtrV, v Value) {
	if p.C != nil {
		e.store(p.C, v)
		return
	}
	if p.A != nil {
		e.accessArr(p.A, true)
		e.arrWrite(p.A, p.I, v.(*Term))
		return
	}
	panic("storePtr nil")
}

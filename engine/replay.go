package main

// Native replay of solver models: the same harness function runs as an ordinary Go test against
// the real build (go test -overlay), with verif* inputs read from the model.

import (
	"bytes"
	"context"
	"crypto/sha1"
	"encoding/hex"
	"encoding/json"
	"fmt"
	"os"
	"os/exec"
	"path/filepath"
	"regexp"
	"strings"
	"time"
)

var pkgClauseRe = regexp.MustCompile(`(?m)^package\s+(\w+)`)

// stageHarness copies /verif/harness/<pkgdir>/*.go to a scratch dir and adds the verif API file
// to every package directory that has harness files. Returns the staging dir.
func stageHarness() (string, error) {
	src := filepath.Join(verifDir, "harness")
	tmpl, err := os.ReadFile(filepath.Join(src, "api.go.tmpl"))
	if err != nil {
		return "", err
	}
	stage, err := os.MkdirTemp("", "gosmt-stage-")
	if err != nil {
		return "", err
	}
	pkgOf := map[string]string{}
	err = filepath.Walk(src, func(p string, info os.FileInfo, err error) error {
		if err != nil || info.IsDir() || !strings.HasSuffix(p, ".go") {
			return err
		}
		rel, _ := filepath.Rel(src, p)
		data, err := os.ReadFile(p)
		if err != nil {
			return err
		}
		// one declaration per staged file (see split.go)
		parts, err := splitHarnessFile(filepath.Base(p), data)
		if err != nil {
			return err
		}
		for _, part := range parts {
			prel := filepath.Join(filepath.Dir(rel), part.name)
			stagedDecl[prel] = part.decl
			if _, skip := excludedHarness[prel]; skip {
				continue // does not compile against this tree (see loadProgram)
			}
			dst := filepath.Join(stage, prel)
			os.MkdirAll(filepath.Dir(dst), 0o755)
			if err := os.WriteFile(dst, part.src, 0o644); err != nil {
				return err
			}
		}
		if m := pkgClauseRe.FindSubmatch(data); m != nil {
			pkgOf[filepath.Dir(rel)] = string(m[1])
		}
		return nil
	})
	if err != nil {
		return stage, err
	}
	for dir, pkg := range pkgOf {
		body := strings.Replace(string(tmpl), "package PKG", "package "+pkg, 1)
		if err := os.WriteFile(filepath.Join(stage, dir, "zz_verif_api.go"), []byte(body), 0o644); err != nil {
			return stage, err
		}
		if dir == "prometheus" {
			if pt, err := os.ReadFile(filepath.Join(src, "api_prom.go.tmpl")); err == nil {
				body := strings.Replace(string(pt), "package PKG", "package "+pkg, 1)
				os.WriteFile(filepath.Join(stage, dir, "zz_verif_api_prom.go"), []byte(body), 0o644)
			}
		}
	}
	return stage, nil
}

type ReplayDoc struct {
	Property string            `json:"property"`
	Harness  string            `json:"harness"`
	Kind     string            `json:"kind"`
	Label    string            `json:"label"`
	Msg      string            `json:"msg"`
	Inputs   map[string]uint64 `json:"inputs"`
	Order    []string          `json:"order"`
	Trace    []string          `json:"trace,omitempty"`
	Tier     int               `json:"tier"`
}

type ReplayResult struct {
	Reproduced bool
	Note       string
	Output     string
}

func harnessPkgDir(h string) string {
	// find which harness dir defines the function
	var found string
	src := filepath.Join(verifDir, "harness")
	filepath.Walk(src, func(p string, info os.FileInfo, err error) error {
		if err != nil || info.IsDir() || !strings.HasSuffix(p, ".go") {
			return nil
		}
		data, _ := os.ReadFile(p)
		if bytes.Contains(data, []byte("func "+h+"(")) {
			rel, _ := filepath.Rel(src, p)
			found = filepath.Dir(rel)
		}
		return nil
	})
	return found
}

func replayFinding(prop string, f *Finding) (string, ReplayResult) {
	doc := ReplayDoc{Property: prop, Harness: f.Harness, Kind: f.Kind, Label: f.Label, Msg: f.Msg, Inputs: f.Inputs, Order: f.Order, Trace: f.Trace, Tier: curTier}
	data, _ := json.MarshalIndent(doc, "", " ")
	sum := sha1.Sum(data)
	dir := filepath.Join(verifDir, "replays", prop)
	os.MkdirAll(dir, 0o755)
	path := filepath.Join(dir, fmt.Sprintf("%s-%s-%s.json", f.Harness, sanitize(f.Label), hex.EncodeToString(sum[:4])))
	os.WriteFile(path, data, 0o644)
	return path, runReplay(&doc, path)
}

func runReplay(doc *ReplayDoc, path string) ReplayResult {
	if strings.HasSuffix(doc.Harness, "_NR") || strings.Contains(doc.Harness, "_NR_") {
		// a one-step witness starts from an arbitrary symbolic pre-state, which no native run can be
		// given: it is reported as a candidate, never as a violation (only what reproduces against
		// the real build is reported); the bounded-history harnesses of the same property replay
		return ReplayResult{Reproduced: false, Note: "one-step witness from an arbitrary symbolic pre-state: not replayable natively, reported as a candidate only"}
	}
	pkgdir := harnessPkgDir(doc.Harness)
	if pkgdir == "" {
		return ReplayResult{Note: "harness source not found"}
	}
	stage, err := stageHarness()
	if err != nil {
		return ReplayResult{Note: "stage error: " + err.Error()}
	}
	defer os.RemoveAll(stage)
	pkgData, _ := os.ReadFile(filepath.Join(stage, pkgdir, "zz_verif_api.go"))
	pkg := string(pkgClauseRe.FindSubmatch(pkgData)[1])
	test := fmt.Sprintf("package %s\n\nimport \"testing\"\n\nfunc TestVerifReplay(t *testing.T) { verifRunReplay(t.Fatalf, %s) }\n", pkg, doc.Harness)
	os.WriteFile(filepath.Join(stage, pkgdir, "zz_verif_replay_test.go"), []byte(test), 0o644)
	ov := map[string]map[string]string{"Replace": {}}
	filepath.Walk(stage, func(p string, info os.FileInfo, err error) error {
		if err != nil || info.IsDir() || !strings.HasSuffix(p, ".go") {
			return nil
		}
		rel, _ := filepath.Rel(stage, p)
		ov["Replace"][filepath.Join(repoDir, rel)] = p
		return nil
	})
	// environment redirects: rewrite the call sites in overlay copies of the sources of every
	// repository package whose harness directory defines the model function
	var pkgDirs []string
	filepath.Walk(stage, func(p string, info os.FileInfo, err error) error {
		if err == nil && info.IsDir() {
			if rel, _ := filepath.Rel(stage, p); rel != "." {
				pkgDirs = append(pkgDirs, rel)
			}
		}
		return nil
	})
	for _, dir := range pkgDirs {
		entries, err := os.ReadDir(filepath.Join(repoDir, dir))
		if err != nil {
			continue
		}
		for _, en := range entries {
			if en.IsDir() || !strings.HasSuffix(en.Name(), ".go") || strings.HasSuffix(en.Name(), "_test.go") {
				continue
			}
			src, err := os.ReadFile(filepath.Join(repoDir, dir, en.Name()))
			if err != nil {
				continue
			}
			out := string(src)
			for _, r := range redirectList {
				if r.target == "" || !strings.Contains(out, r.srcText) {
					continue
				}
				if harnessDefines(stage, dir, r.target) {
					out = strings.ReplaceAll(out, r.srcText, r.target+"(")
					if r.keep != "" {
						out += "\n" + r.keep + "\n"
					}
				}
			}
			if out != string(src) {
				dst := filepath.Join(stage, dir, "zz_rewritten_"+en.Name())
				os.WriteFile(dst, []byte(out), 0o644)
				ov["Replace"][filepath.Join(repoDir, dir, en.Name())] = dst
			}
		}
	}
	ovData, _ := json.Marshal(ov)
	ovPath := filepath.Join(stage, "overlay.json")
	os.WriteFile(ovPath, ovData, 0o644)
	args := []string{"test", "-vet=off", "-count=1", "-timeout", "40s", "-overlay", ovPath, "-run", "^TestVerifReplay$", "-v"}
	if doc.Kind == "race" {
		args = append(args, "-race")
	}
	args = append(args, "./"+pkgdir)
	// a schedule-dependent counterexample is reproduced natively by repetition, which can miss on a
	// loaded machine: such replays are attempted up to three times
	attempts := 1
	if harnessIsScheduleDependent(doc.Harness) {
		attempts = 3
	}
	var rr ReplayResult
	for a := 0; a < attempts && !rr.Reproduced; a++ {
		rr = runReplayOnce(doc, path, args)
	}
	return rr
}

var helperCallRe = regexp.MustCompile(`\b(verif[A-Z]\w*)\(`)

// harnessIsScheduleDependent: the harness (or a helper it calls) explores or repeats schedules
func harnessIsScheduleDependent(h string) bool {
	dir := harnessPkgDir(h)
	if dir == "" {
		return false
	}
	var src strings.Builder
	files, _ := filepath.Glob(filepath.Join(verifDir, "harness", dir, "*.go"))
	for _, f := range files {
		b, _ := os.ReadFile(f)
		src.Write(b)
		src.WriteString("\n")
	}
	all := src.String()
	body := func(name string) string {
		i := strings.Index(all, "\nfunc "+name+"(")
		if i < 0 {
			return ""
		}
		rest := all[i+1:]
		if j := strings.Index(rest, "\n}\n"); j >= 0 {
			return rest[:j]
		}
		return rest
	}
	marks := []string{"verifRepeat(", "verifSched(", "verifRaceDetect(", "verifRunOnly(", "verifPar("}
	has := func(b string) bool {
		for _, m := range marks {
			if strings.Contains(b, m) {
				return true
			}
		}
		return false
	}
	b := body(h)
	if has(b) {
		return true
	}
	for _, m := range helperCallRe.FindAllStringSubmatch(b, -1) {
		if has(body(m[1])) {
			return true
		}
	}
	return false
}

func runReplayOnce(doc *ReplayDoc, path string, args []string) ReplayResult {
	ctx, cancel := context.WithTimeout(context.Background(), 10*time.Minute)
	defer cancel()
	cmd := exec.CommandContext(ctx, "go", args...)
	cmd.Dir = repoDir
	cmd.Env = append(os.Environ(), "VERIF_REPLAY="+path, fmt.Sprintf("VERIF_TIER_NUM=%d", doc.Tier))
	out, _ := cmd.CombinedOutput()
	o := string(out)
	rr := ReplayResult{Output: o}
	switch {
	case strings.Contains(o, "REPLAY-DIVERGED"):
		rr.Note = "native run left the assumed region (assume failed)"
	case (doc.Kind == "assert" || doc.Kind == "race") && strings.Contains(o, "fatal error: concurrent map"):
		// the Go runtime's own detection of an unsynchronised map access: the real code failed
		rr.Reproduced = true
	case doc.Kind == "assert":
		if strings.Contains(o, "VERIF-ASSERT-FAIL "+doc.Label+"\n") || strings.Contains(o, "VERIF-ASSERT-FAIL "+doc.Label+" ") {
			rr.Reproduced = true
		} else {
			rr.Note = "assertion held natively"
		}
	case doc.Kind == "crash":
		if strings.Contains(o, "REPLAY-PANIC") || strings.Contains(o, "panic:") || strings.Contains(o, "fatal error:") {
			rr.Reproduced = true
		} else {
			rr.Note = "no panic natively"
		}
	case doc.Kind == "deadlock" || doc.Kind == "self-deadlock" || doc.Kind == "stuck":
		if strings.Contains(o, "test timed out") || strings.Contains(o, "all goroutines are asleep") || strings.Contains(o, "VERIF-ASSERT-FAIL") {
			rr.Reproduced = true
		} else {
			rr.Note = "no hang natively"
		}
	case doc.Kind == "race":
		if strings.Contains(o, "WARNING: DATA RACE") {
			rr.Reproduced = true
		} else {
			rr.Note = "race detector silent natively"
		}
	}
	if !rr.Reproduced && rr.Note == "" {
		rr.Note = "not reproduced"
	}
	if !rr.Reproduced {
		tail := o
		if len(tail) > 600 {
			tail = tail[len(tail)-600:]
		}
		rr.Note += " | " + strings.ReplaceAll(tail, "\n", " / ")
	}
	return rr
}

func cmdReplay(args []string) int {
	if len(args) < 1 {
		fmt.Fprintln(os.Stderr, "usage: gosmt replay <path.json>")
		return 2
	}
	data, err := os.ReadFile(args[0])
	if err != nil {
		fmt.Println(err)
		return 2
	}
	var doc ReplayDoc
	if err := json.Unmarshal(data, &doc); err != nil {
		fmt.Println(err)
		return 2
	}
	curTier = doc.Tier
	rr := runReplay(&doc, args[0])
	fmt.Println(rr.Output)
	if rr.Reproduced {
		fmt.Printf("VIOLATION property=%s replay=%s\n", doc.Property, args[0])
		return 1
	}
	fmt.Println("not reproduced:", rr.Note)
	return 0
}

func harnessDefines(stage, pkgdir, fn string) bool {
	found := false
	entries, _ := os.ReadDir(filepath.Join(stage, pkgdir))
	for _, en := range entries {
		if data, err := os.ReadFile(filepath.Join(stage, pkgdir, en.Name())); err == nil && bytes.Contains(data, []byte("func "+fn+"(")) {
			found = true
		}
	}
	return found
}

// harnessDefinesAnywhere: the target may live in the package itself; a repo package can only call
// its own package's function, so look in the rewritten file's package directory first.
func harnessDefinesAnywhere(stage, fn string) bool {
	found := false
	filepath.Walk(stage, func(p string, info os.FileInfo, err error) error {
		if err != nil || info.IsDir() || !strings.HasSuffix(p, ".go") {
			return nil
		}
		if data, err := os.ReadFile(p); err == nil && bytes.Contains(data, []byte("func "+fn+"(")) {
			found = true
		}
		return nil
	})
	return found
}

package main

// Path exploration: decisions, forking by re-execution, obligations, findings.

import (
	"encoding/json"
	"fmt"
	"os"
	"sort"
	"strings"
	"sync"
	"time"

	"golang.org/x/tools/go/ssa"
)

type Decision struct {
	N         int    // alternative taken
	Forced    bool   // only one alternative was feasible (no sibling)
	Unchecked bool   // sibling pushed without feasibility check
	Val       uint64 // concretisation value
	Excl      []uint64
	Kind      byte // 'b' branch, 'p' pick, 'c' concretise
}

type Config struct {
	MaxSteps   int
	MaxDepth   int
	MaxPaths   int
	TimeoutMs  int
	Workers    int
	SolverBin  string
	KeepSMT    bool
	WallBudget time.Duration
}

type Finding struct {
	Kind     string // "assert", "crash", "deadlock", "race", "self-deadlock", ...
	Label    string
	Msg      string
	Harness  string
	Inputs   map[string]uint64
	Order    []string // input names in creation order
	Decision []Decision
	Trace    []string
	Sample   string
	Key      string
}

type stats struct {
	instrs, rtChecks, symIdxReads, rangeCopies, goroutines int
	obligations, discharged                                int
	branches, selects                                      int
}

type poolState struct {
	items []Value
	vc    VC
}

type inputRec struct {
	Name string
	T    *Term
}

type Exec struct {
	prog *Program
	cfg  *Config
	tc   *TermCtx
	sol  *Solver

	harness string
	prefix  []Decision
	dpos    int
	decs    []Decision
	pending [][]Decision

	pcond []*Term

	gs                           []*G
	cur                          *G
	mainG                        *G
	nextG                        int
	nextID                       int
	waiters                      map[*ChanV][]*waiter
	schedFork                    bool
	schedChoiceCap, schedChoices int
	maxPreempt                   int
	preemptions                  int
	preempted                    map[syncKey]bool

	globals  map[*ssa.Global]*Cell
	initDone map[*ssa.Package]bool
	initing  bool

	inputs    []inputRec
	inputCnt  map[string]int
	freshCnt  int
	steps     int
	stats     stats
	funcs     map[string]int
	findings  []Finding
	reached   map[string]bool
	incon     []string
	events    []string
	trace     []string
	samples   []string
	oblLabels []string
	ended     string

	mutexes      map[*Cell]*mutexState
	wgs          map[*Cell]*wgState
	atomVals     map[*Cell]Value
	raceOn       bool
	races        map[string]bool
	aead         *aeadState
	sinks        []sinkEvent
	clockLast    *Term
	opaqueN      int
	lockEdges    map[string]bool
	userState    map[string]Value
	lockWaiters  []*G
	findKey      string
	onlyFilter   string
	onlyCaller   *G
	onlyDone     map[*G]bool
	records      []string
	pools        map[*Cell]*poolState
	randCalls    int
	randFaultAt  int
	syncMaps     map[*Cell]*MapV
	failedAlways int
	shared       *sync.Map
	initTopInstr ssa.Instruction
	initTopIP    int
	initTopBlock *ssa.BasicBlock
}

func (e *Exec) fresh(tag string, s Sort) *Term {
	e.freshCnt++
	return e.tc.Var(fmt.Sprintf("%s!%d", sanitize(tag), e.freshCnt), s)
}

func sanitize(s string) string {
	var sb strings.Builder
	for _, c := range s {
		if c >= 'a' && c <= 'z' || c >= 'A' && c <= 'Z' || c >= '0' && c <= '9' || c == '_' || c == '.' {
			sb.WriteRune(c)
		} else {
			sb.WriteRune('_')
		}
	}
	return sb.String()
}

// input creates a named harness input (reported in models / replays).
func (e *Exec) input(name string, s Sort) *Term {
	k := e.inputCnt[name]
	e.inputCnt[name] = k + 1
	full := fmt.Sprintf("%s#%d", name, k)
	t := e.tc.Var("in_"+sanitize(name)+fmt.Sprintf("_%d", k), s)
	e.inputs = append(e.inputs, inputRec{full, t})
	return t
}

func (e *Exec) assume(c *Term) {
	if c.IsTrue() {
		return
	}
	if c.IsFalse() {
		panic(pathEnd{"assume false"})
	}
	e.pcond = append(e.pcond, c)
	e.sol.Assert(c)
}

func (e *Exec) event(kind, msg string) {
	e.events = append(e.events, kind+": "+msg)
	if kind == "crash" || kind == "deadlock" || kind == "self-deadlock" || kind == "race" || kind == "stuck" {
		e.addFinding(kind, kind, msg)
	}
}

func (e *Exec) addFinding(kind, label, msg string) {
	fd := Finding{Kind: kind, Label: label, Msg: msg, Harness: e.harness, Key: e.findKey}
	e.findKey = ""
	// one witness per distinct finding is enough: skip the model query for repeats
	if e.shared != nil {
		k := "finding|" + kind + "|" + label + "|" + fd.Key
		if fd.Key == "" {
			k += msg
		}
		if _, dup := e.shared.LoadOrStore(k, true); dup {
			return
		}
	}
	// model of the current path condition
	r := e.sol.Check(nil)
	if r == RSat {
		vars := make([]*Term, 0, len(e.inputs))
		for _, in := range e.inputs {
			if !in.T.IsConst() {
				vars = append(vars, in.T)
			}
		}
		m := e.sol.Model(vars)
		fd.Inputs = map[string]uint64{}
		for _, in := range e.inputs {
			fd.Order = append(fd.Order, in.Name)
			if in.T.IsConst() {
				fd.Inputs[in.Name] = in.T.Val
			} else if v, ok := m[in.T.Name]; ok {
				fd.Inputs[in.Name] = v
			}
		}
	}
	e.sol.Pop()
	fd.Decision = append([]Decision{}, e.decs...)
	if n := len(e.trace); n > 0 {
		lo := 0
		if n > 60 {
			lo = n - 60
		}
		fd.Trace = append([]string{}, e.trace[lo:]...)
	}
	e.findings = append(e.findings, fd)
}

// describePath: the completed path as a JSON object (witness inputs, decisions, obligations)
func (e *Exec) describePath() string {
	doc := map[string]interface{}{"harness": e.harness, "obligations_decided_on_this_path": e.oblLabels,
		"ssa_instructions": e.stats.instrs, "symbolic_branch_decisions": len(e.decs)}
	inputs := map[string]uint64{}
	if r := e.sol.Check(nil); r == RSat {
		var vars []*Term
		for _, in := range e.inputs {
			if !in.T.IsConst() {
				vars = append(vars, in.T)
			}
		}
		m := e.sol.Model(vars)
		for i, in := range e.inputs {
			if i >= 24 {
				break
			}
			if in.T.IsConst() {
				inputs[in.Name] = in.T.Val
			} else if v, ok := m[in.T.Name]; ok {
				inputs[in.Name] = v
			}
		}
	}
	e.sol.Pop()
	doc["witness_inputs_of_this_path"] = inputs
	b, _ := json.Marshal(doc)
	return string(b)
}

func (e *Exec) nextDecision() *Decision {
	if e.dpos < len(e.prefix) {
		d := &e.prefix[e.dpos]
		e.dpos++
		e.decs = append(e.decs, *d)
		return d
	}
	e.dpos++
	return nil
}

func (e *Exec) record(d Decision) {
	e.decs = append(e.decs, d)
	if len(e.decs) > e.cfg.MaxDepth {
		panic(unsupported{fmt.Sprintf("decision depth %d exceeded (unwinding bound)", e.cfg.MaxDepth)})
	}
}

func (e *Exec) pushSibling(d Decision) {
	sib := make([]Decision, len(e.decs)-1, len(e.decs))
	copy(sib, e.decs[:len(e.decs)-1])
	for i := range sib {
		sib[i].Unchecked = false
	}
	sib = append(sib, d)
	e.pending = append(e.pending, sib)
}

// branch decides a symbolic condition; forks when both sides are feasible.
func (e *Exec) branch(c *Term, why string) bool {
	if c.IsTrue() {
		return true
	}
	if c.IsFalse() {
		return false
	}
	e.stats.branches++
	tc := e.tc
	e.sol.label = "branch:" + why + e.whereAmI()
	if d := e.nextDecision(); d != nil {
		taken := d.N == 1
		cc := c
		if !taken {
			cc = tc.Not(c)
		}
		if d.Unchecked {
			r := e.sol.Check(cc)
			e.sol.Pop()
			if r == RUnsat {
				panic(pathEnd{"infeasible"})
			}
			if r == RUnknown {
				e.incon = append(e.incon, "solver unknown at branch ("+why+")")
				panic(pathEnd{"unknown"})
			}
		}
		e.assume(cc)
		return taken
	}
	r := e.sol.Check(c)
	e.sol.Pop()
	switch r {
	case RUnsat:
		e.record(Decision{N: 0, Forced: true, Kind: 'b'})
		e.assume(tc.Not(c))
		return false
	case RSat:
		// decide the other side now: re-executing the whole prefix only to find the sibling
		// infeasible costs far more than one query
		r2 := e.sol.Check(tc.Not(c))
		e.sol.Pop()
		if r2 == RUnsat {
			e.record(Decision{N: 1, Forced: true, Kind: 'b'})
			e.assume(c)
			return true
		}
		e.record(Decision{N: 1, Kind: 'b'})
		e.pushSibling(Decision{N: 0, Unchecked: r2 != RSat, Kind: 'b'})
		e.assume(c)
		return true
	default:
		// try the negation: if it is unsat the condition is valid
		r2 := e.sol.Check(tc.Not(c))
		e.sol.Pop()
		if r2 == RUnsat {
			e.record(Decision{N: 1, Forced: true, Kind: 'b'})
			e.assume(c)
			return true
		}
		e.incon = append(e.incon, "solver unknown at branch ("+why+")")
		panic(pathEnd{"unknown"})
	}
}

// pick chooses among n always-feasible alternatives (select cases, schedules).
func (e *Exec) pick(n int, why string) int {
	if n <= 1 {
		return 0
	}
	if d := e.nextDecision(); d != nil {
		return d.N
	}
	e.record(Decision{N: 0, Kind: 'p'})
	for k := n - 1; k >= 1; k-- {
		e.pushSibling(Decision{N: k, Kind: 'p'})
	}
	return 0
}

// concretize returns a concrete value for t on this path, forking over all feasible values.
func (e *Exec) concretize(t *Term, why string) uint64 {
	if t.IsConst() {
		return t.Val
	}
	tc := e.tc
	var excl []uint64
	if d := e.nextDecision(); d != nil {
		if d.N == 1 {
			e.assume(tc.Eq(t, tc.Const(t.S.W, d.Val)))
			return d.Val
		}
		// exclusion sibling: must be the last of the prefix; continue searching
		excl = d.Excl
		e.decs = e.decs[:len(e.decs)-1]
	}
	if len(excl) > 300 {
		panic(unsupported{"too many concretisation alternatives for " + why})
	}
	var cs []*Term
	for _, x := range excl {
		cs = append(cs, tc.Not(tc.Eq(t, tc.Const(t.S.W, x))))
	}
	cond := tc.And(cs...)
	r := e.sol.Check(cond)
	if r != RSat {
		e.sol.Pop()
		if r == RUnknown {
			e.incon = append(e.incon, "solver unknown at concretisation ("+why+")")
			panic(pathEnd{"unknown"})
		}
		panic(pathEnd{"infeasible"})
	}
	v, ok := e.sol.Eval(t)
	e.sol.Pop()
	if !ok {
		panic(unsupported{"cannot evaluate term for concretisation: " + why})
	}
	e.record(Decision{N: 1, Val: v, Kind: 'c'})
	e.pushSibling(Decision{N: 0, Excl: append(append([]uint64{}, excl...), v), Kind: 'c'})
	for _, c := range cs {
		e.assume(c)
	}
	e.assume(tc.Eq(t, tc.Const(t.S.W, v)))
	return v
}

// ---------------------------------------------------------------------------

type RunResult struct {
	Pending             [][]Decision
	Findings            []Finding
	Reached             map[string]bool
	Incon               []string
	Stats               stats
	Funcs               map[string]int
	Ended               string
	Steps               int
	Events              []string
	Sample              string
	Infeasible          bool
	Sat, Unsat, Unknown int
	SolveTime           time.Duration
	Terms               int
	Records             []string
}

// runPath executes one path of the harness given a decision prefix.
func runPath(prog *Program, cfg *Config, sol *Solver, harness string, prefix []Decision, shared *sync.Map) (res RunResult) {
	e := &Exec{
		prog: prog, cfg: cfg, tc: NewTermCtx(), sol: sol, harness: harness, prefix: prefix,
		waiters: map[*ChanV][]*waiter{}, globals: map[*ssa.Global]*Cell{}, initDone: map[*ssa.Package]bool{},
		inputCnt: map[string]int{}, funcs: map[string]int{}, reached: map[string]bool{},
		mutexes: map[*Cell]*mutexState{}, wgs: map[*Cell]*wgState{}, atomVals: map[*Cell]Value{},
		preempted: map[syncKey]bool{}, races: map[string]bool{}, lockEdges: map[string]bool{},
		userState: map[string]Value{}, shared: shared, syncMaps: map[*Cell]*MapV{}, pools: map[*Cell]*poolState{}, randFaultAt: -1, onlyDone: map[*G]bool{},
	}
	sol.Reset()
	s0, u0, k0, t0 := sol.nSat, sol.nUnsat, sol.nUnknown, sol.solveTime
	fn := prog.harnessFn(harness)
	if fn == nil {
		res.Incon = []string{"harness not found: " + harness}
		return
	}
	defer func() {
		if r := recover(); r != nil {
			switch x := r.(type) {
			case pathEnd:
				e.ended = x.reason
			case unsupported:
				e.ended = "unsupported"
				e.incon = append(e.incon, "unsupported: "+x.msg+e.whereAmI())
			case solverDied:
				e.ended = "solver-died"
				e.incon = append(e.incon, "solver died: "+x.msg)
				sol.Close()
			default:
				e.ended = "engine-error"
				e.incon = append(e.incon, fmt.Sprintf("engine error: %v%s", r, e.whereAmI()))
				if cfg.KeepSMT {
					panic(r)
				}
			}
		} else {
			e.ended = "done"
		}
		res.Pending = e.pending
		res.Findings = e.findings
		res.Reached = e.reached
		res.Incon = e.incon
		res.Stats = e.stats
		res.Funcs = e.funcs
		res.Ended = e.ended
		res.Steps = e.steps
		res.Events = e.events
		res.Infeasible = e.ended == "infeasible"
		res.Sat, res.Unsat, res.Unknown = sol.nSat-s0, sol.nUnsat-u0, sol.nUnknown-k0
		res.SolveTime = sol.solveTime - t0
		res.Terms = e.tc.nTerms
		res.Records = e.records
		if len(e.samples) > 0 {
			res.Sample = e.samples[0]
		}
	}()
	g := e.newG("main:" + harness)
	g.isMain = true
	e.mainG = g
	e.cur = g
	e.pushFrame(g, fn, nil, nil)
	e.run()
	// end of harness: the end of the path must be reachable (it is: pc is sat by construction)
	e.reached["end:"+harness] = true
	// one written-out case per harness for the evidence file: a concrete input on which this path
	// runs (a model of its path condition) and the obligations that were decided on it
	if shared != nil && len(e.samples) == 0 {
		if _, dup := shared.LoadOrStore("sample|"+harness, true); !dup {
			e.samples = append(e.samples, e.describePath())
		}
	}
	return
}

func (e *Exec) whereAmI() string {
	if e.cur == nil || len(e.cur.frames) == 0 {
		return ""
	}
	var sb strings.Builder
	sb.WriteString(" [in")
	fs := e.cur.frames
	for i := len(fs) - 1; i >= 0 && i >= len(fs)-4; i-- {
		f := fs[i]
		sb.WriteString(" " + f.fn.String())
		if f.ip < len(f.block.Instrs) {
			if p := f.block.Instrs[f.ip].Pos(); p.IsValid() {
				pos := e.prog.fset.Position(p)
				sb.WriteString(fmt.Sprintf("(%s:%d)", shortPath(pos.Filename), pos.Line))
			}
		}
		sb.WriteString(" <-")
	}
	sb.WriteString("]")
	return sb.String()
}

func shortPath(p string) string {
	if i := strings.LastIndex(p, "/"); i >= 0 {
		if j := strings.LastIndex(p[:i], "/"); j >= 0 {
			return p[j+1:]
		}
	}
	return p
}

// ---------------------------------------------------------------------------

type HarnessResult struct {
	Harness             string
	Paths               int
	Infeasible          int
	Findings            []Finding
	Reached             map[string]bool
	Incon               []string
	Stats               stats
	Funcs               map[string]int
	Sat, Unsat, Unknown int
	SolveTime           time.Duration
	Wall                time.Duration
	Steps               int
	Samples             []string
	Truncated           bool
	Ends                map[string]int
	Records             []string
}

// explore runs all paths of a harness with a pool of workers.
func explore(prog *Program, cfg *Config, harness string) *HarnessResult {
	hr := &HarnessResult{Harness: harness, Reached: map[string]bool{}, Funcs: map[string]int{}, Ends: map[string]int{}}
	start := time.Now()
	var mu sync.Mutex
	cond := sync.NewCond(&mu)
	work := [][]Decision{nil}
	active := 0
	inconSeen := map[string]bool{}
	findSeen := map[string]bool{}
	labelTimes := map[string]time.Duration{}
	shared := &sync.Map{}
	var wg sync.WaitGroup
	for w := 0; w < cfg.Workers; w++ {
		wg.Add(1)
		go func() {
			defer wg.Done()
			sol := NewSolver(cfg.SolverBin, cfg.TimeoutMs)
			sol.keepLog = cfg.KeepSMT
			if os.Getenv("VERIF_DEBUG") != "" {
				sol.byLabel = map[string]time.Duration{}
				defer func() {
					mu.Lock()
					for k, v := range sol.byLabel {
						labelTimes[k] += v
					}
					mu.Unlock()
				}()
			}
			if cfg.SolverBin == "z3-new" {
				sol.alt = "z3"
			} else if cfg.SolverBin == "z3" {
				sol.alt = "z3-new"
			}
			defer sol.Close()
			for {
				mu.Lock()
				for len(work) == 0 && active > 0 {
					cond.Wait()
				}
				if len(work) == 0 && active == 0 {
					mu.Unlock()
					cond.Broadcast()
					return
				}
				// depth-first: take the most recent
				p := work[len(work)-1]
				work = work[:len(work)-1]
				active++
				mu.Unlock()

				r := runPath(prog, cfg, sol, harness, p, shared)

				mu.Lock()
				active--
				if r.Infeasible {
					hr.Infeasible++
				} else {
					hr.Paths++
				}
				hr.Ends[r.Ended]++
				over := hr.Paths+hr.Infeasible >= cfg.MaxPaths || (cfg.WallBudget > 0 && time.Since(start) > cfg.WallBudget)
				if over {
					if len(r.Pending) > 0 || len(work) > 0 {
						hr.Truncated = true
					}
					work = nil
				} else {
					work = append(work, r.Pending...)
				}
				for _, f := range r.Findings {
					key := f.Kind + "|" + f.Label + "|" + f.Msg
					if f.Key != "" {
						key = f.Kind + "|" + f.Key
					}
					if !findSeen[key] {
						findSeen[key] = true
						hr.Findings = append(hr.Findings, f)
					}
				}
				for k := range r.Reached {
					hr.Reached[k] = true
				}
				for _, s := range r.Incon {
					if !inconSeen[s] {
						inconSeen[s] = true
						hr.Incon = append(hr.Incon, s)
					}
				}
				for k, v := range r.Funcs {
					hr.Funcs[k] = v
				}
				hr.Stats.instrs += r.Stats.instrs
				hr.Stats.rtChecks += r.Stats.rtChecks
				hr.Stats.obligations += r.Stats.obligations
				hr.Stats.discharged += r.Stats.discharged
				hr.Stats.branches += r.Stats.branches
				hr.Stats.goroutines += r.Stats.goroutines
				hr.Stats.rangeCopies += r.Stats.rangeCopies
				hr.Stats.symIdxReads += r.Stats.symIdxReads
				hr.Sat += r.Sat
				hr.Unsat += r.Unsat
				hr.Unknown += r.Unknown
				hr.SolveTime += r.SolveTime
				hr.Steps += r.Steps
				if len(r.Records) > 0 {
					hr.Records = r.Records
				}
				if r.Sample != "" && len(hr.Samples) < 3 {
					hr.Samples = append(hr.Samples, r.Sample)
				}
				mu.Unlock()
				cond.Broadcast()
			}
		}()
	}
	wg.Wait()
	hr.Wall = time.Since(start)
	if len(labelTimes) > 0 {
		type kv struct {
			k string
			v time.Duration
		}
		var kvs []kv
		for k, v := range labelTimes {
			kvs = append(kvs, kv{k, v})
		}
		sort.Slice(kvs, func(i, j int) bool { return kvs[i].v > kvs[j].v })
		for i, x := range kvs {
			if i >= 8 {
				break
			}
			fmt.Fprintf(os.Stderr, "  time %-60s %.1fs\n", x.k, x.v.Seconds())
		}
	}
	if hr.Truncated {
		hr.Incon = append(hr.Incon, fmt.Sprintf("exploration truncated at %d paths after %.0fs (path / wall-clock bound)", hr.Paths+hr.Infeasible, hr.Wall.Seconds()))
	}
	sort.Strings(hr.Incon)
	return hr
}

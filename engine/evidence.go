package main

import (
	"encoding/json"
	"fmt"
	"os"
	"path/filepath"
	"sort"
	"time"
)

type Evidence struct {
	Prop, Tier       string
	Seed             int
	Harnesses        []map[string]interface{}
	Funcs            map[string]int
	Paths            int
	Instrs           int
	Sat, Unsat, Unk  int
	SolverS          float64
	Obligations      int
	Discharged       int
	Replays          int
	ReplaysConfirmed int
	Violations       int
	Known            []string
	Inconclusive     []string
	Samples          []interface{}
	Reached          []string
	Bounds           []string
	SelftestRecords  int
}

func newEvidence(prop, tier string, seed int) *Evidence {
	return &Evidence{Prop: prop, Tier: tier, Seed: seed, Funcs: map[string]int{}}
}

func (ev *Evidence) addHarness(hr *HarnessResult) {
	ev.Paths += hr.Paths
	ev.Instrs += hr.Stats.instrs
	ev.Sat += hr.Sat
	ev.Unsat += hr.Unsat
	ev.Unk += hr.Unknown
	ev.SolverS += hr.SolveTime.Seconds()
	ev.Obligations += hr.Stats.obligations + hr.Stats.rtChecks
	ev.Discharged += hr.Stats.discharged + hr.Stats.rtChecks
	for k, v := range hr.Funcs {
		ev.Funcs[k] = v
	}
	var rs []string
	for k := range hr.Reached {
		rs = append(rs, k)
	}
	sort.Strings(rs)
	ev.Reached = append(ev.Reached, rs...)
	ev.Harnesses = append(ev.Harnesses, map[string]interface{}{
		"harness": hr.Harness, "feasible_paths": hr.Paths, "infeasible_prefixes": hr.Infeasible,
		"ssa_instructions_executed": hr.Stats.instrs, "symbolic_branches": hr.Stats.branches,
		"runtime_check_obligations": hr.Stats.rtChecks, "assert_obligations": hr.Stats.obligations,
		"assert_discharged": hr.Stats.discharged, "queries_sat": hr.Sat, "queries_unsat": hr.Unsat,
		"queries_unknown": hr.Unknown, "solver_s": hr.SolveTime.Seconds(), "wall_s": hr.Wall.Seconds(),
		"goroutines_spawned": hr.Stats.goroutines, "path_ends": hr.Ends, "findings": len(hr.Findings),
		"inconclusive": hr.Incon, "reached": rs,
	})
	for _, s := range hr.Incon {
		ev.Inconclusive = append(ev.Inconclusive, hr.Harness+": "+s)
	}
	for _, s := range hr.Samples {
		if len(ev.Samples) < 12 {
			var obj interface{}
			if json.Unmarshal([]byte(s), &obj) == nil {
				ev.Samples = append(ev.Samples, obj)
			} else {
				ev.Samples = append(ev.Samples, s)
			}
		}
	}
	for _, f := range hr.Findings {
		if len(ev.Samples) < 16 {
			ev.Samples = append(ev.Samples, map[string]interface{}{"finding": f.Kind, "label": f.Label, "msg": f.Msg, "inputs": f.Inputs})
		}
	}
}

func (ev *Evidence) write(start time.Time) {
	var fns []string
	for k, v := range ev.Funcs {
		fns = append(fns, fmt.Sprintf("%s (%d instrs)", k, v))
	}
	sort.Strings(fns)
	if len(ev.Samples) == 0 {
		ev.Samples = append(ev.Samples, fmt.Sprintf("no sample obligation recorded; harnesses: %d", len(ev.Harnesses)))
	}
	states := ev.Paths
	if states < 1 {
		states = 1
	}
	trans := ev.Instrs
	if trans < 1 {
		trans = 1
	}
	doc := map[string]interface{}{
		"property_id": ev.Prop,
		"tier":        ev.Tier,
		"seed":        ev.Seed,
		"level":       "model_checking",
		"wall_s":      time.Since(start).Seconds(),
		"violations":  ev.Violations,
		"coverage": map[string]interface{}{
			"states":                        states,
			"transitions":                   trans,
			"traces_validated_against_impl": ev.ReplaysConfirmed,
			"samples":                       ev.Samples,
			"explanation":                   "bounded symbolic execution of the real code from go/ssa; states = feasible symbolic paths explored to the end, transitions = SSA instructions executed symbolically; every obligation (harness assertion, Go run-time check, vacuity witness) is decided by constant folding or by a z3 query over the path condition",
			"obligations":                   ev.Obligations,
			"discharged":                    ev.Discharged,
			"queries":                       map[string]int{"sat": ev.Sat, "unsat": ev.Unsat, "unknown": ev.Unk},
			"solver_s":                      ev.SolverS,
			"functions_encoded":             fns,
			"functions_encoded_count":       len(fns),
			"harnesses":                     ev.Harnesses,
			"translator_selftest_records_agreeing_with_native": ev.SelftestRecords,
			"input_domains_declared_in_harnesses":              ev.Bounds,
			"engine_bounds":                                    "per path: interpreter steps 4M (thorough 20M), decision depth 1500; per harness 60k (thorough 1.5M) paths; per query 20s (thorough 120s); exceeding any is reported as inconclusive",
			"replays_attempted":                                ev.Replays,
			"replays_confirmed":                                ev.ReplaysConfirmed,
			"known_findings_reported":                          ev.Known,
			"inconclusive":                                     ev.Inconclusive,
			"reach_witnesses":                                  ev.Reached,
			"exhaustive":                                       false,
		},
		"assumptions": []string{
			"Go 1.23 type checker and go/ssa builder (x/tools v0.29.0); gosmt interpreter; z3 5.1.0 (z3-new) as primary solver, every unknown re-decided on z3 4.8.12",
			"ideal AEAD (no forgery, ciphertexts fresh); HMAC-SHA1 uninterpreted; crypto/rand returns arbitrary bytes",
			"time.Now monotone; timers (context.WithTimeout, time.AfterFunc) do not fire within an explored run; stdlib text formatting/parsing of addresses are mutual inverses (structured strings)",
			"goroutine schedules: cooperative, plus the preemption bound stated in each harness (verifSched); races by vector clocks over the explored schedules",
			"sockets are harness fakes scripted by symbolic values; resolver adversarial",
			"bounds are those stated in the harness sources (verifInt ranges, loop/step/path caps); inputs outside are not covered",
		},
	}
	// evidence describes runs against /repo itself; a run against another tree (VERIF_REPO, used
	// for seeded changes in scratch worktrees) must not overwrite it
	dir := filepath.Join(verifDir, "evidence")
	if filepath.Clean(repoDir) != "/repo" {
		dir = filepath.Join(os.TempDir(), "gosmt-evidence-scratch")
	}
	os.MkdirAll(dir, 0o755)
	data, _ := json.MarshalIndent(doc, "", " ")
	os.WriteFile(filepath.Join(dir, ev.Prop+".json"), data, 0o644)
}

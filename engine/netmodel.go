package main

// Model of kernel TCP listeners/connections (net.ListenTCP, *net.TCPListener, *net.TCPConn).
// Natively the same harnesses use real loopback sockets.

import (
	"fmt"
	"go/types"
)

type tcpLnState struct {
	cell        *Cell
	addrKey     string
	addr        Value // PtrV to *net.TCPAddr
	closed      bool
	queue       []*tcpConnState
	waiters     []*G
	accepts     int
	deadlineSet bool
}

type tcpConnState struct {
	in      []*Term // bytes sent by the peer, not yet read
	peerFIN bool    // the peer closed its write side
	out     int     // bytes written by the server side
	waiters []*G
	cell    *Cell
	closed  int
	local   Value
	remote  Value
	id      int
}

type tcpModel struct {
	lns          map[*Cell]*tcpLnState
	conns        map[*Cell]*tcpConnState
	bound        map[string]*tcpLnState
	nextPort     int
	allConns     []*tcpConnState
	listenFaults map[string]bool
	listenCount  map[int]int
}

func (e *Exec) tcpSt() *tcpModel {
	if v, ok := e.userState["tcpmodel"]; ok {
		return v.(*tcpModel)
	}
	m := &tcpModel{lns: map[*Cell]*tcpLnState{}, conns: map[*Cell]*tcpConnState{}, bound: map[string]*tcpLnState{}, nextPort: 40000, listenFaults: map[string]bool{}, listenCount: map[int]int{}}
	e.userState["tcpmodel"] = m
	return m
}

func (e *Exec) opError(op string, inner IfaceV) IfaceV {
	t := types.NewPointer(e.prog.namedType("net", "OpError"))
	c := e.newCell(t.Elem())
	e.store(e.ipField(c, "Op"), concStr(op))
	e.store(e.ipField(c, "Net"), concStr("tcp"))
	e.store(e.ipField(c, "Err"), inner)
	return IfaceV{T: t, V: PtrV{C: c}}
}

// addrInUse: os.NewSyscallError("bind", syscall.EADDRINUSE), as the kernel reports it
func (e *Exec) addrInUse() IfaceV {
	st := types.NewPointer(e.prog.namedType("os", "SyscallError"))
	c := e.newCell(st.Elem())
	e.store(e.ipField(c, "Syscall"), concStr("bind"))
	e.store(e.ipField(c, "Err"), IfaceV{T: e.prog.namedType("syscall", "Errno"), V: e.tc.Const(64, 0x62)})
	return IfaceV{T: st, V: PtrV{C: c}}
}

func (e *Exec) errClosedVal() IfaceV {
	pkg := e.prog.byPath["net"]
	g := pkg.Var("ErrClosed")
	return e.load(e.global(g)).(IfaceV)
}

func (e *Exec) tcpAddrKey(p PtrV) (string, *Term) {
	ip := e.sliceTerms(e.load(e.ipField(p.C, "IP")).(SliceV))
	b, ok := concBytes(ip)
	if !ok {
		panic(unsupported{"symbolic listen address"})
	}
	port := e.load(e.ipField(p.C, "Port")).(*Term)
	return fmt.Sprintf("%x", b), port
}

func registerNetModel(p *Program) {
	p.reg("net.ListenTCP", func(e *Exec, g *G, a []Value) Value {
		m := e.tcpSt()
		la := a[1].(PtrV)
		if la.IsNil() {
			panic(unsupported{"ListenTCP with nil address"})
		}
		ipk, port := e.tcpAddrKey(la)
		pn := int(e.concretize(port, "listen port"))
		if pn == 0 {
			m.nextPort++
			pn = m.nextPort
		}
		key := fmt.Sprintf("%s:%d", ipk, pn)
		if m.listenFaults[key] || m.listenFaults["*"] {
			return TupleV{PtrV{}, e.opError("listen", e.errValue("bind: injected fault"))}
		}
		if ln, ok := m.bound[key]; ok && !ln.closed {
			return TupleV{PtrV{}, e.opError("listen", e.addrInUse())}
		}
		lt := e.prog.namedType("net", "TCPListener")
		c := e.newCell(lt)
		at := e.prog.namedType("net", "TCPAddr")
		ac := e.newCell(at)
		e.store(e.ipField(ac, "IP"), e.load(e.ipField(la.C, "IP")))
		e.store(e.ipField(ac, "Port"), e.tc.Const(64, uint64(pn)))
		st := &tcpLnState{cell: c, addrKey: key, addr: PtrV{C: ac}}
		m.lns[c] = st
		m.bound[key] = st
		e.trace = append(e.trace, "ListenTCP "+key)
		m.listenCount[pn]++
		return TupleV{PtrV{C: c}, IfaceV{}}
	})
	p.reg("(*net.TCPListener).Addr", func(e *Exec, g *G, a []Value) Value {
		st := e.tcpSt().lns[a[0].(PtrV).C]
		return IfaceV{T: types.NewPointer(e.prog.namedType("net", "TCPAddr")), V: st.addr}
	})
	p.reg("(*net.TCPListener).Close", func(e *Exec, g *G, a []Value) Value {
		st := e.tcpSt().lns[a[0].(PtrV).C]
		if st.closed {
			return e.opError("close", e.errClosedVal())
		}
		st.closed = true
		g.vc.tick(g.id)
		e.trace = append(e.trace, "TCPListener.Close "+st.addrKey)
		// queued, never accepted connections are reset by the kernel
		for _, c := range st.queue {
			c.closed++
		}
		st.queue = nil
		ws := st.waiters
		st.waiters = nil
		for _, w := range ws {
			e.wake(w)
		}
		return IfaceV{}
	})
	accept := func(e *Exec, g *G, a []Value) Value {
		st := e.tcpSt().lns[a[0].(PtrV).C]
		if st.closed {
			return TupleV{PtrV{}, e.opError("accept", e.errClosedVal())}
		}
		if st.deadlineSet {
			// an accept deadline in the past: a non-"closed" accept error (i/o timeout)
			return TupleV{PtrV{}, e.opError("accept", e.timeoutErrVal())}
		}
		if len(st.queue) > 0 {
			c := st.queue[0]
			st.queue = st.queue[1:]
			st.accepts++
			return TupleV{PtrV{C: c.cell}, IfaceV{}}
		}
		st.waiters = append(st.waiters, g)
		e.block(g, "TCPListener.Accept "+st.addrKey)
		return blockedResult{}
	}
	p.reg("(*net.TCPListener).AcceptTCP", accept)
	p.reg("(*net.TCPListener).SetDeadline", func(e *Exec, g *G, a []Value) Value {
		st := e.tcpSt().lns[a[0].(PtrV).C]
		wall, ext := timeParts(a[1])
		zero := e.tc.And(e.tc.Eq(wall, e.tc.Const(64, 0)), e.tc.Eq(ext, e.tc.Const(64, 0)))
		st.deadlineSet = !zero.IsTrue()
		if st.deadlineSet {
			ws := st.waiters
			st.waiters = nil
			for _, w := range ws {
				e.wake(w)
			}
		}
		return IfaceV{}
	})
	p.reg("(*net.TCPConn).Close", func(e *Exec, g *G, a []Value) Value {
		st := e.tcpSt().conns[a[0].(PtrV).C]
		st.closed++
		if st.closed > 1 {
			return e.opError("close", e.errClosedVal())
		}
		return IfaceV{}
	})
	p.reg("(*net.TCPConn).RemoteAddr", func(e *Exec, g *G, a []Value) Value {
		st := e.tcpSt().conns[a[0].(PtrV).C]
		return IfaceV{T: types.NewPointer(e.prog.namedType("net", "TCPAddr")), V: st.remote}
	})
	p.reg("(*net.TCPConn).LocalAddr", func(e *Exec, g *G, a []Value) Value {
		st := e.tcpSt().conns[a[0].(PtrV).C]
		return IfaceV{T: types.NewPointer(e.prog.namedType("net", "TCPAddr")), V: st.local}
	})
	p.reg("(*net.TCPConn).Read", func(e *Exec, g *G, a []Value) Value {
		st := e.tcpSt().conns[a[0].(PtrV).C]
		b := a[1].(SliceV)
		if st.closed > 0 {
			return TupleV{e.tc.Const(64, 0), e.opError("read", e.errClosedVal())}
		}
		if len(st.in) > 0 {
			n := int(e.concretize(b.Len, "tcp read buffer length"))
			if n > len(st.in) {
				n = len(st.in)
			}
			if n > 0 {
				e.builtinCopy(b, e.bytesSliceFromTerms(st.in[:n]))
				st.in = st.in[n:]
			}
			return TupleV{e.tc.Const(64, uint64(n)), IfaceV{}}
		}
		if st.peerFIN {
			pkg := e.prog.byPath["io"]
			eof := e.load(e.global(pkg.Var("EOF"))).(IfaceV)
			return TupleV{e.tc.Const(64, 0), eof}
		}
		st.waiters = append(st.waiters, g)
		e.block(g, fmt.Sprintf("TCPConn.Read (conn %d)", st.id))
		return blockedResult{}
	})
	p.reg("(*net.TCPConn).WriteTo", func(e *Exec, g *G, a []Value) Value {
		return tailCall{fn: &FuncV{Fn: e.prog.funcByName("net", "genericWriteTo")}, args: a}
	})
	p.reg("(*net.TCPConn).ReadFrom", func(e *Exec, g *G, a []Value) Value {
		return tailCall{fn: &FuncV{Fn: e.prog.funcByName("net", "genericReadFrom")}, args: a}
	})
	p.reg("(*net.TCPConn).Write", func(e *Exec, g *G, a []Value) Value {
		st := e.tcpSt().conns[a[0].(PtrV).C]
		st.out += int(e.concretize(a[1].(SliceV).Len, "tcp write length"))
		return TupleV{a[1].(SliceV).Len, IfaceV{}}
	})
	// outbound dials: the connection fails (neither the sandbox nor the model has reachable targets)
	p.reg("(*github.com/Jigsaw-Code/outline-sdk/transport.TCPDialer).DialStream", func(e *Exec, g *G, a []Value) Value {
		e.trace = append(e.trace, "DialStream "+e.describe(a[2]))
		e.userState["dials"] = e.tc.Const(64, e.dialCount()+1)
		// what net.Dialer does with the hooks of this dialer before it connects is written in Go
		// on the harness side (ControlContext takes precedence over Control; their verdict on
		// the literal address decides whether a connection is attempted at all)
		if fn := e.prog.funcByName("github.com/Jigsaw-Code/outline-ss-server/service", "verifModelDialStream"); fn != nil {
			return tailCall{fn: &FuncV{Fn: fn}, args: a}
		}
		return TupleV{IfaceV{}, e.opError("dial", e.errValue("connect: network is unreachable"))}
	})
	p.reg("verif:verifTCPSend", func(e *Exec, g *G, a []Value) Value {
		m := e.tcpSt()
		cs := m.allConns[int(a[0].(*Term).Val)]
		cs.in = append(cs.in, e.sliceTerms(a[1].(SliceV))...)
		g.vc.tick(g.id)
		ws := cs.waiters
		cs.waiters = nil
		for _, w := range ws {
			e.wake(w)
		}
		return nil
	})
	p.reg("verif:verifTCPCloseWrite", func(e *Exec, g *G, a []Value) Value {
		m := e.tcpSt()
		cs := m.allConns[int(a[0].(*Term).Val)]
		cs.peerFIN = true
		ws := cs.waiters
		cs.waiters = nil
		for _, w := range ws {
			e.wake(w)
		}
		return nil
	})
	p.reg("verif:verifTCPReceivedLen", func(e *Exec, g *G, a []Value) Value {
		m := e.tcpSt()
		return e.tc.Const(64, uint64(m.allConns[int(a[0].(*Term).Val)].out))
	})
	nilErr := func(e *Exec, g *G, a []Value) Value { return IfaceV{} }
	for _, mname := range []string{"CloseRead", "CloseWrite", "SetDeadline", "SetReadDeadline", "SetWriteDeadline"} {
		p.reg("(*net.TCPConn)."+mname, nilErr)
	}

	// harness API: a client connects to the listener bound at addr
	p.reg("verif:verifDialTCP", func(e *Exec, g *G, a []Value) Value {
		m := e.tcpSt()
		iv := a[0].(IfaceV)
		ipk, port := e.tcpAddrKey(iv.V.(PtrV))
		key := fmt.Sprintf("%s:%d", ipk, port.Val)
		ln, ok := m.bound[key]
		if !ok || ln.closed {
			// a listener on the wildcard address accepts connections to any local address
			ln, ok = m.bound[fmt.Sprintf(":%d", port.Val)]
		}
		if !ok || ln.closed {
			return e.tc.Const(64, ^uint64(0)) // connection refused
		}
		ct := e.prog.namedType("net", "TCPConn")
		c := e.newCell(ct)
		at := e.prog.namedType("net", "TCPAddr")
		rc := e.newCell(at)
		e.store(e.ipField(rc, "IP"), e.bytesSliceFromConcrete([]byte{127, 0, 0, 1}))
		e.store(e.ipField(rc, "Port"), e.tc.Const(64, uint64(50000+len(m.allConns))))
		cs := &tcpConnState{cell: c, local: ln.addr, remote: PtrV{C: rc}, id: len(m.allConns)}
		m.conns[c] = cs
		m.allConns = append(m.allConns, cs)
		ln.queue = append(ln.queue, cs)
		g.vc.tick(g.id)
		ws := ln.waiters
		ln.waiters = nil
		for _, w := range ws {
			e.wake(w)
		}
		return e.tc.Const(64, uint64(cs.id))
	})
	// has the server side of dialled connection i been closed (or reset)?
	p.reg("verif:verifTCPPeerClosed", func(e *Exec, g *G, a []Value) Value {
		m := e.tcpSt()
		i := int(a[0].(*Term).Val)
		return e.tc.Bool(m.allConns[i].closed > 0)
	})
	// which dialled connection is this accepted conn? (-1 if not one of them)
	p.reg("verif:verifTCPConnID", func(e *Exec, g *G, a []Value) Value {
		m := e.tcpSt()
		iv, ok := a[0].(IfaceV)
		if !ok || iv.T == nil {
			return e.tc.Const(64, ^uint64(0))
		}
		if pv, ok := iv.V.(PtrV); ok {
			if cs, ok := m.conns[pv.C]; ok {
				return e.tc.Const(64, uint64(cs.id))
			}
		}
		return e.tc.Const(64, ^uint64(0))
	})
	p.reg("verif:verifTCPListenFault", func(e *Exec, g *G, a []Value) Value {
		e.tcpSt().listenFaults[strArg(a[0])] = a[1].(*Term).IsTrue()
		return nil
	})
	p.reg("verif:verifTCPListenCount", func(e *Exec, g *G, a []Value) Value {
		return e.tc.Const(64, uint64(e.tcpSt().listenCount[int(a[0].(*Term).Val)]))
	})
	p.reg("verif:verifTCPBound", func(e *Exec, g *G, a []Value) Value {
		n := 0
		for _, ln := range e.tcpSt().bound {
			if !ln.closed {
				n++
			}
		}
		return e.tc.Const(64, uint64(n))
	})
}

func (e *Exec) dialCount() uint64 {
	if v, ok := e.userState["dials"]; ok {
		return v.(*Term).Val
	}
	return 0
}

// timeoutErrVal: an error whose Timeout() is true (os.ErrDeadlineExceeded's dynamic type)
func (e *Exec) timeoutErrVal() IfaceV {
	t := types.NewPointer(e.prog.namedType("internal/poll", "DeadlineExceededError"))
	c := e.newCell(t.Elem())
	return IfaceV{T: t, V: PtrV{C: c}}
}

package main

// Intrinsics: builtins, the verif harness API, sync, time, fmt, errors, bytealg, logging.

import (
	"fmt"
	"go/types"
	"io"
	"os"
	"strconv"
	"strings"

	"golang.org/x/tools/go/ssa"
)

const repoMod = "github.com/Jigsaw-Code/outline-ss-server"

func (p *Program) reg(name string, h intrinsicFn) { p.intr[name] = h }

func registerIntrinsics(p *Program) {
	registerBuiltins(p)
	registerVerif(p)
	registerSync(p)
	registerTime(p)
	registerFmt(p)
	registerBytealg(p)
	registerNetText(p)
	registerCrypto(p)
	registerProm(p)
	registerMisc(p)
	registerNetModel(p)
}

// ---------------------------------------------------------------------------
// builtins

func registerBuiltins(p *Program) {
	p.reg("builtin:len", func(e *Exec, g *G, a []Value) Value {
		switch x := a[0].(type) {
		case SliceV:
			if x.IsNil() {
				return e.tc.Const(64, 0)
			}
			return x.Len
		case *StrV:
			return e.strLen(x)
		case *MapV:
			return e.mapLen(x)
		case *ChanV:
			if x == nil {
				return e.tc.Const(64, 0)
			}
			return e.tc.Const(64, uint64(len(x.Buf)))
		case *ArrayV:
			if x.SA != nil {
				return e.tc.Const(64, uint64(x.SA.N))
			}
			return e.tc.Const(64, uint64(len(x.E)))
		case PtrV:
			if x.C != nil && x.C.SA != nil {
				return e.tc.Const(64, uint64(x.C.SA.N))
			}
			if x.C != nil && x.C.GA != nil {
				return e.tc.Const(64, uint64(len(x.C.GA.E)))
			}
		}
		panic(unsupported{fmt.Sprintf("len(%T)", a[0])})
	})
	p.reg("builtin:cap", func(e *Exec, g *G, a []Value) Value {
		switch x := a[0].(type) {
		case SliceV:
			if x.IsNil() {
				return e.tc.Const(64, 0)
			}
			return x.Cap
		case *ChanV:
			return e.tc.Const(64, uint64(x.Cap))
		}
		panic(unsupported{fmt.Sprintf("cap(%T)", a[0])})
	})
	p.reg("builtin:append", func(e *Exec, g *G, a []Value) Value { return e.builtinAppend(g, a[0].(SliceV), a[1]) })
	p.reg("builtin:copy", func(e *Exec, g *G, a []Value) Value { return e.builtinCopy(a[0].(SliceV), a[1]) })
	p.reg("builtin:delete", func(e *Exec, g *G, a []Value) Value {
		e.mapDelete(a[0].(*MapV), a[1])
		return nil
	})
	p.reg("builtin:clear", func(e *Exec, g *G, a []Value) Value {
		switch x := a[0].(type) {
		case *MapV:
			if x != nil {
				e.accessMap(x, true)
				x.E = nil
			}
		case SliceV:
			if x.IsNil() {
				return nil
			}
			n := int(e.concretize(x.Len, "clear length"))
			off := int(e.concretize(x.Off, "clear offset"))
			if x.G != nil {
				for i := 0; i < n; i++ {
					e.store(x.G.E[off+i], e.zero(x.Elem))
				}
			} else if x.A != nil {
				for i := 0; i < n; i++ {
					e.arrWrite(x.A, e.tc.Const(64, uint64(off+i)), e.tc.Const(x.A.EW, 0))
				}
			}
		default:
			panic(unsupported{"clear of this kind of value"})
		}
		return nil
	})
	p.reg("builtin:close", func(e *Exec, g *G, a []Value) Value {
		ch, _ := a[0].(*ChanV)
		if !e.closeChan(g, ch) {
			return panicked{}
		}
		return nil
	})
	p.reg("builtin:recover", func(e *Exec, g *G, a []Value) Value {
		f := g.top()
		if g.panic != nil && f.isDefer && f.owner != nil {
			v := g.panic.val
			g.panic = nil
			f.owner.recovered = true
			if iv, ok := v.(IfaceV); ok {
				return iv
			}
			return IfaceV{T: types.Typ[types.String], V: v}
		}
		return IfaceV{}
	})
	p.reg("builtin:print", func(e *Exec, g *G, a []Value) Value { return nil })
	p.reg("builtin:println", func(e *Exec, g *G, a []Value) Value { return nil })
	p.reg("builtin:min", func(e *Exec, g *G, a []Value) Value {
		r := a[0].(*Term)
		for _, x := range a[1:] {
			t := x.(*Term)
			r = e.tc.Ite(e.tc.Cmp(OSLT, t, r), t, r)
		}
		return r
	})
	p.reg("builtin:max", func(e *Exec, g *G, a []Value) Value {
		r := a[0].(*Term)
		for _, x := range a[1:] {
			t := x.(*Term)
			r = e.tc.Ite(e.tc.Cmp(OSLT, r, t), t, r)
		}
		return r
	})
	p.reg("builtin:ssa:wrapnilchk", func(e *Exec, g *G, a []Value) Value {
		if pv, ok := a[0].(PtrV); ok && pv.IsNil() {
			e.runtimePanic(g, "value method called using nil pointer")
			return panicked{}
		}
		return a[0]
	})
}

func (e *Exec) builtinCopy(dst SliceV, srcv Value) Value {
	tc := e.tc
	var src SliceV
	switch s := srcv.(type) {
	case SliceV:
		src = s
	case *StrV:
		src = e.strToBytes(s, types.Typ[types.Byte])
	default:
		panic(fmt.Sprintf("copy from %T", srcv))
	}
	if dst.IsNil() || src.IsNil() {
		return tc.Const(64, 0)
	}
	n := tc.Ite(tc.Cmp(OULT, src.Len, dst.Len), src.Len, dst.Len)
	if dst.A != nil {
		e.accessArr(dst.A, true)
		e.accessArr(src.A, false)
		e.arrCopy(dst.A, dst.Off, src.A, src.Off, n)
		return n
	}
	cnt := int(e.concretize(n, "copy length"))
	do := int(e.concretize(dst.Off, "copy dst offset"))
	so := int(e.concretize(src.Off, "copy src offset"))
	tmp := make([]Value, cnt)
	for i := 0; i < cnt; i++ {
		tmp[i] = e.load(src.G.E[so+i])
	}
	for i := 0; i < cnt; i++ {
		e.store(dst.G.E[do+i], tmp[i])
	}
	return n
}

func (e *Exec) builtinAppend(g *G, s SliceV, tv Value) Value {
	tc := e.tc
	var t SliceV
	switch x := tv.(type) {
	case SliceV:
		t = x
	case *StrV:
		t = e.strToBytes(x, types.Typ[types.Byte])
	default:
		panic(fmt.Sprintf("append of %T", tv))
	}
	if t.IsNil() || (t.Len.IsConst() && t.Len.Val == 0) {
		return s
	}
	zero := tc.Const(64, 0)
	sLen, sCap := s.Len, s.Cap
	if s.IsNil() {
		sLen, sCap = zero, zero
	}
	newLen := tc.Bin(OAdd, sLen, t.Len)
	fits := tc.Cmp(OULE, newLen, sCap)
	elem := s.Elem
	if elem == nil {
		elem = t.Elem
	}
	if !s.IsNil() && e.branch(fits, "append-fits") {
		dst := SliceV{A: s.A, G: s.G, Elem: elem, Off: tc.Bin(OAdd, s.Off, sLen), Len: t.Len, Cap: t.Len}
		e.builtinCopy(dst, t)
		return SliceV{A: s.A, G: s.G, Elem: elem, Off: s.Off, Len: newLen, Cap: s.Cap}
	}
	n := int(e.concretize(newLen, "append new length"))
	// growth like the Go runtime for small slices: double, at least what is needed; byte-sized
	// elements round up to 8 (malloc size class). Reallocation aliasing bugs depend on this.
	oldCap := 0
	if !s.IsNil() {
		oldCap = int(e.concretize(s.Cap, "append old cap"))
	}
	capN := 2 * oldCap
	if capN < n {
		capN = n
	}
	if _, isScalar := isScalarElem(elem); isScalar && capN < 8 {
		capN = 8
	}
	ns := e.makeSlice(elem, tc.Const(64, uint64(n)), capN)
	if !s.IsNil() {
		e.builtinCopy(ns, s)
	}
	dst := SliceV{A: ns.A, G: ns.G, Elem: elem, Off: sLen, Len: t.Len, Cap: t.Len}
	e.builtinCopy(dst, t)
	return ns
}

// ---------------------------------------------------------------------------
// verif API (in-package functions named verif*)

func verifName(fn *ssa.Function) (string, bool) {
	if fn == nil || fn.Pkg == nil {
		return "", false
	}
	if strings.HasPrefix(fn.Name(), "verif") && strings.HasPrefix(fn.Pkg.Pkg.Path(), repoMod) && fn.Blocks != nil {
		return "verif:" + fn.Name(), true
	}
	return "", false
}

func strArg(v Value) string {
	s := v.(*StrV)
	if s.Kind != SConc {
		panic(unsupported{"verif label must be a concrete string"})
	}
	return s.S
}

func registerVerif(p *Program) {
	old := p.intr
	_ = old
	p.reg("verif:verifNative", func(e *Exec, g *G, a []Value) Value { return e.tc.Bool(false) })
	boolArgs := func(e *Exec, v Value) []*Term {
		var out []*Term
		for _, x := range e.sliceToValues(v.(SliceV)) {
			out = append(out, x.(*Term))
		}
		return out
	}
	p.reg("verif:verifAll", func(e *Exec, g *G, a []Value) Value { return e.tc.And(boolArgs(e, a[0])...) })
	p.reg("verif:verifAny", func(e *Exec, g *G, a []Value) Value { return e.tc.Or(boolArgs(e, a[0])...) })
	p.reg("verif:verifImplies", func(e *Exec, g *G, a []Value) Value { return e.tc.Implies(a[0].(*Term), a[1].(*Term)) })
	p.reg("verif:verifIteInt", func(e *Exec, g *G, a []Value) Value { return e.tc.Ite(a[0].(*Term), a[1].(*Term), a[2].(*Term)) })
	p.reg("verif:verifRepeat", func(e *Exec, g *G, a []Value) Value { return e.tc.Const(64, 1) })
	// verifClockAtLeast(t): time has passed until t (a blocked read ran into its deadline, the
	// harness looks at the association later): every later reading of the clock is >= t
	p.reg("verif:verifClockAtLeast", func(e *Exec, g *G, a []Value) Value {
		_, ext := timeParts(a[0])
		tc := e.tc
		lo := tc.Const(64, 1<<40)
		if e.clockLast != nil {
			lo = e.clockLast
		}
		e.clockLast = tc.Ite(tc.Cmp(OSLT, lo, ext), ext, lo)
		return nil
	})
	p.reg("verif:verifRecord", func(e *Exec, g *G, a []Value) Value {
		t := a[1].(*Term)
		if !t.IsConst() {
			panic(unsupported{"verifRecord of a symbolic value"})
		}
		e.records = append(e.records, fmt.Sprintf("%s=%d", strArg(a[0]), t.Val))
		return nil
	})
	p.reg("verif:verifSeed", func(e *Exec, g *G, a []Value) Value {
		v, _ := strconv.ParseUint(os.Getenv("VERIF_SEED"), 10, 64)
		return e.tc.Const(64, v)
	})
	p.reg("verif:verifIPTextLen", func(e *Exec, g *G, a []Value) Value {
		return e.ipTextLen(e.sliceTerms(a[0].(SliceV)))
	})
	p.reg("verif:verifYield", func(e *Exec, g *G, a []Value) Value { return nil })
	p.reg("verif:verifTime", func(e *Exec, g *G, a []Value) Value { return e.timeVal(a[0].(*Term)) })
	p.reg("verif:verifEqNanos", func(e *Exec, g *G, a []Value) Value { return e.tc.Eq(a[0].(*Term), a[1].(*Term)) })
	p.reg("verif:verifTier", func(e *Exec, g *G, a []Value) Value { return e.tc.Const(64, uint64(curTier)) })
	p.reg("verif:verifAEADHavoc", func(e *Exec, g *G, a []Value) Value {
		e.aeadSt().havoc = a[0].(*Term).IsTrue()
		return nil
	})
	p.reg("verif:verifBytes", func(e *Exec, g *G, a []Value) Value {
		name := strArg(a[0])
		n := int(e.concretize(a[1].(*Term), "verifBytes length"))
		arr := e.newArr(8, n)
		for i := 0; i < n; i++ {
			arr.ov[i] = e.input(fmt.Sprintf("%s[%d]", name, i), BV(8))
		}
		ln := e.tc.Const(64, uint64(n))
		return SliceV{A: arr, Off: e.tc.Const(64, 0), Len: ln, Cap: ln, Elem: types.Typ[types.Byte]}
	})
	mkInt := func(w int) intrinsicFn {
		return func(e *Exec, g *G, a []Value) Value { return e.input(strArg(a[0]), BV(w)) }
	}
	p.reg("verif:verifU8", mkInt(8))
	p.reg("verif:verifU16", mkInt(16))
	p.reg("verif:verifU32", mkInt(32))
	p.reg("verif:verifU64", mkInt(64))
	p.reg("verif:verifI64", mkInt(64))
	p.reg("verif:verifBool", func(e *Exec, g *G, a []Value) Value {
		b := e.input(strArg(a[0]), BV(8))
		e.assume(e.tc.Cmp(OULE, b, e.tc.Const(8, 1)))
		return e.tc.Eq(b, e.tc.Const(8, 1))
	})
	p.reg("verif:verifInt", func(e *Exec, g *G, a []Value) Value {
		t := e.input(strArg(a[0]), BV(64))
		lo, hi := a[1].(*Term), a[2].(*Term)
		e.assume(e.tc.And(e.tc.Cmp(OSLE, lo, t), e.tc.Cmp(OSLE, t, hi)))
		return t
	})
	p.reg("verif:verifChoice", func(e *Exec, g *G, a []Value) Value {
		// forks concretely over 0..n-1 (always feasible: no solver query)
		name := strArg(a[0])
		n := int(e.concretize(a[1].(*Term), "verifChoice n"))
		k := e.pick(n, "choice:"+name)
		cnt := e.inputCnt[name]
		e.inputCnt[name] = cnt + 1
		t := e.tc.Const(64, uint64(k))
		e.inputs = append(e.inputs, inputRec{fmt.Sprintf("%s#%d", name, cnt), t})
		return t
	})
	p.reg("verif:verifConcretize", func(e *Exec, g *G, a []Value) Value {
		t := a[0].(*Term)
		return e.tc.Const(t.S.W, e.concretize(t, "verifConcretize"))
	})
	p.reg("verif:verifAssume", func(e *Exec, g *G, a []Value) Value {
		c := a[0].(*Term)
		if c.IsTrue() {
			return nil
		}
		if c.IsFalse() {
			panic(pathEnd{"assume false"})
		}
		r := e.sol.Check(c)
		e.sol.Pop()
		if r == RUnsat {
			panic(pathEnd{"assume infeasible"})
		}
		if r == RUnknown {
			e.incon = append(e.incon, "solver unknown at assume")
			panic(pathEnd{"unknown"})
		}
		e.assume(c)
		return nil
	})
	p.reg("verif:verifAssert", func(e *Exec, g *G, a []Value) Value {
		label := strArg(a[0])
		c := a[1].(*Term)
		e.obligation(label, c)
		return nil
	})
	p.reg("verif:verifReach", func(e *Exec, g *G, a []Value) Value {
		label := strArg(a[0])
		c := a[1].(*Term)
		if e.reached[label] {
			return nil
		}
		if e.shared != nil {
			if _, ok := e.shared.Load(label); ok {
				e.reached[label] = true
				return nil
			}
		}
		if c.IsTrue() {
			if e.shared != nil {
				e.shared.Store(label, true)
			}
			e.reached[label] = true
			return nil
		}
		if c.IsFalse() {
			return nil
		}
		e.sol.label = "reach:" + label
		r := e.sol.Check(c)
		e.sol.Pop()
		if r == RSat {
			e.reached[label] = true
			if e.shared != nil {
				e.shared.Store(label, true)
			}
		}
		return nil
	})
	p.reg("verif:verifLog", func(e *Exec, g *G, a []Value) Value {
		e.trace = append(e.trace, e.describe(a[0]))
		return nil
	})
	p.reg("verif:verifQuiesce", func(e *Exec, g *G, a []Value) Value {
		others := false
		for _, o := range e.gs {
			if o != g && o.status == GRunnable {
				others = true
			}
			// another goroutine is itself waiting in verifQuiesce (a hook): it goes on before main does
			if o != g && g.isMain && o.status == GQuiesce {
				others = true
			}
		}
		if !others {
			return nil
		}
		g.status = GQuiesce
		if e.cur == g {
			e.cur = nil
		}
		return quiesceRetry{}
	})
	// verifRunOnly(sub): let only the goroutines whose stack mentions sub run until they block
	// (builds a specific interleaving deterministically; natively a short sleep)
	p.reg("verif:verifRunOnly", func(e *Exec, g *G, a []Value) Value {
		sub := strArg(a[0])
		if e.onlyDone[g] {
			// resumed after the restricted run
			delete(e.onlyDone, g)
			return nil
		}
		any := false
		for _, o := range e.gs {
			if o != g && o.status == GRunnable && gMatches(o, sub) {
				any = true
			}
		}
		if !any {
			e.onlyFilter = ""
			return nil
		}
		e.onlyFilter = sub
		e.onlyDone[g] = true
		e.onlyCaller = g
		g.status = GQuiesce
		if e.cur == g {
			e.cur = nil
		}
		return quiesceRetry{}
	})
	p.reg("verif:verifSched", func(e *Exec, g *G, a []Value) Value {
		n := int(a[0].(*Term).SVal())
		// n > 0: fork the schedule at blocking points and allow n preemptions at sync points;
		// n < 0: fork at blocking points only; 0: deterministic run-to-block
		e.schedFork = n != 0
		if n < 0 {
			n = 0
		}
		e.maxPreempt = n
		e.schedChoiceCap, e.schedChoices = 0, 0
		return nil
	})
	// signals are not delivered in explored runs
	p.reg("os/signal.Notify", func(e *Exec, g *G, a []Value) Value { return nil })
	p.reg("os/signal.Stop", func(e *Exec, g *G, a []Value) Value { return nil })
	p.reg("verif:verifDebugLogging", func(e *Exec, g *G, a []Value) Value {
		e.userState["slog.debug"] = a[0].(*Term)
		return nil
	})
	p.reg("verif:verifSchedFirst", func(e *Exec, g *G, a []Value) Value {
		// explore which goroutine runs next at the first k points where the running one blocks;
		// afterwards (and with k == 0) the deterministic order is used; no preemptions
		k := int(a[0].(*Term).SVal())
		e.schedFork = k > 0
		e.maxPreempt = 0
		e.schedChoiceCap, e.schedChoices = k, 0
		return nil
	})
	p.reg("verif:verifRaceDetect", func(e *Exec, g *G, a []Value) Value {
		e.raceOn = a[0].(*Term).IsTrue()
		return nil
	})
	p.reg("verif:verifBlocked", func(e *Exec, g *G, a []Value) Value {
		n := 0
		for _, o := range e.gs {
			if o != g && o.status == GBlocked {
				n++
			}
		}
		return e.tc.Const(64, uint64(n))
	})
	p.reg("verif:verifBlockedIn", func(e *Exec, g *G, a []Value) Value {
		// number of goroutines blocked whose stack contains a function whose name contains substr
		sub := strArg(a[0])
		n := 0
		for _, o := range e.gs {
			if o == g || o.status != GBlocked {
				continue
			}
			for _, fr := range o.frames {
				if strings.Contains(fr.fn.String(), sub) {
					n++
					break
				}
			}
		}
		return e.tc.Const(64, uint64(n))
	})
	p.reg("verif:verifLive", func(e *Exec, g *G, a []Value) Value {
		n := 0
		for _, o := range e.gs {
			if o != g && o.status != GDone {
				n++
			}
		}
		return e.tc.Const(64, uint64(n))
	})
	p.reg("verif:verifSymSet", func(e *Exec, g *G, a []Value) Value {
		// turns an (empty) map with integer keys and zero-size values into an arbitrary symbolic set
		m := mapArg(a[0])
		name := strArg(a[1])
		if len(m.E) != 0 {
			panic(unsupported{"verifSymSet on non-empty map"})
		}
		m.Sym = true
		m.Present = e.fresh("set_"+name, ArrS(8))
		m.SymLen = e.input(name+".len", BV(64))
		e.assume(e.tc.And(e.tc.Cmp(OSLE, e.tc.Const(64, 0), m.SymLen), e.tc.Cmp(OSLE, m.SymLen, e.tc.Const(64, 1<<32))))
		return nil
	})
	p.reg("verif:verifHeld", func(e *Exec, g *G, a []Value) Value {
		return e.tc.Const(64, uint64(len(g.held)))
	})
}

type quiesceRetry struct{}

func mapArg(v Value) *MapV {
	switch x := v.(type) {
	case *MapV:
		return x
	case IfaceV:
		return x.V.(*MapV)
	}
	panic(fmt.Sprintf("mapArg %T", v))
}

// obligation: assert c on the current path.
func (e *Exec) obligation(label string, c *Term) {
	e.stats.obligations++
	if len(e.oblLabels) < 12 {
		e.oblLabels = append(e.oblLabels, label)
	}
	e.sol.label = "obligation:" + label
	if c.IsTrue() {
		e.stats.discharged++
		return
	}
	r := e.sol.Check(e.tc.Not(c))
	switch r {
	case RUnsat:
		e.sol.Pop()
		e.stats.discharged++
		if len(e.samples) < 1 && e.cfg.KeepSMT {
			e.samples = append(e.samples, fmt.Sprintf("; obligation %s: path-condition ∧ ¬(%s) unsat", label, Inline(c, 6)))
		}
		return
	case RUnknown:
		e.sol.Pop()
		e.incon = append(e.incon, "solver unknown at obligation "+label)
		return
	}
	e.sol.Pop()
	// violation candidate: model under pc ∧ ¬c
	saved := e.pcond
	e.sol.send("(push 1)")
	e.sol.Assert(e.tc.Not(c))
	// "A.x|B.y": one condition stated by two properties is reported under each label
	for _, l := range strings.Split(label, "|") {
		e.addFinding("assert", l, "assertion "+l+" can fail")
	}
	e.sol.send("(pop 1)")
	e.pcond = saved
	// continue on the side where the assertion holds, if any
	r2 := e.sol.Check(c)
	e.sol.Pop()
	if r2 != RSat {
		// the assertion fails on every input of this path: keep going so that later
		// assertions of the harness are still evaluated (they may be the ones that replay)
		e.failedAlways++
		if e.failedAlways > 20 {
			panic(pathEnd{"assert-fails-always"})
		}
		return
	}
	e.assume(c)
}

// ---------------------------------------------------------------------------
// sync

type mutexState struct {
	holder  *G
	readers map[*G]int
	vc      VC
	name    string
}

type wgState struct {
	n  int
	vc VC
}

func (e *Exec) mutexOf(v Value) (*Cell, *mutexState) {
	p := v.(PtrV)
	if p.C == nil {
		panic(unsupported{"mutex op on nil/array pointer"})
	}
	ms := e.mutexes[p.C]
	if ms == nil {
		ms = &mutexState{readers: map[*G]int{}, vc: VC{}, name: p.C.lockName()}
		e.mutexes[p.C] = ms
	}
	return p.C, ms
}

func (c *Cell) lockName() string {
	if c.Name != "" {
		return c.Name
	}
	return fmt.Sprintf("%s#%d", c.T, c.ID)
}

func (e *Exec) noteAcquire(g *G, c *Cell, ms *mutexState, read bool) {
	for _, h := range g.held {
		e.lockEdges[h.name+" -> "+ms.name] = true
	}
	g.held = append(g.held, &lockRef{cell: c, name: ms.name, read: read})
	g.vc.join(ms.vc)
}

func (e *Exec) noteRelease(g *G, c *Cell, ms *mutexState) {
	for i := len(g.held) - 1; i >= 0; i-- {
		if g.held[i].cell == c {
			g.held = append(append([]*lockRef{}, g.held[:i]...), g.held[i+1:]...)
			break
		}
	}
	// release: publish the clock, then advance (later accesses are not covered by this release)
	ms.vc = ms.vc.clone()
	ms.vc.join(g.vc)
	g.vc.tick(g.id)
}

func registerSync(p *Program) {
	lock := func(e *Exec, g *G, a []Value) Value {
		c, ms := e.mutexOf(a[0])
		if ms.holder == g {
			e.event("self-deadlock", "goroutine re-locks a mutex it already holds: "+ms.name+e.whereAmI())
			panic(pathEnd{"self-deadlock"})
		}
		if ms.holder != nil || len(ms.readers) > 0 {
			if ms.readers[g] > 0 && ms.holder == nil && len(ms.readers) == 1 {
				e.event("self-deadlock", "goroutine write-locks an RWMutex it read-holds: "+ms.name)
				panic(pathEnd{"self-deadlock"})
			}
			e.block(g, "mutex "+ms.name)
			e.lockWaiters = append(e.lockWaiters, g)
			return blockedResult{}
		}
		ms.holder = g
		e.noteAcquire(g, c, ms, false)
		return nil
	}
	unlock := func(e *Exec, g *G, a []Value) Value {
		c, ms := e.mutexOf(a[0])
		if ms.holder == nil {
			e.raise(g, IfaceV{T: e.prog.runtimeErrType, V: concStr("sync: unlock of unlocked mutex")}, "fatal error: sync: unlock of unlocked mutex", true)
			return panicked{}
		}
		holder := ms.holder
		ms.holder = nil
		e.noteRelease(holder, c, ms)
		if holder != g {
			e.noteRelease(g, c, ms)
		}
		e.wakeLockWaiters()
		return nil
	}
	rlock := func(e *Exec, g *G, a []Value) Value {
		c, ms := e.mutexOf(a[0])
		if ms.holder == g {
			e.event("self-deadlock", "goroutine read-locks an RWMutex it write-holds: "+ms.name)
			panic(pathEnd{"self-deadlock"})
		}
		if ms.holder != nil {
			e.block(g, "rwmutex(R) "+ms.name)
			e.lockWaiters = append(e.lockWaiters, g)
			return blockedResult{}
		}
		ms.readers[g]++
		e.noteAcquire(g, c, ms, true)
		return nil
	}
	runlock := func(e *Exec, g *G, a []Value) Value {
		c, ms := e.mutexOf(a[0])
		if ms.readers[g] == 0 {
			e.raise(g, IfaceV{T: e.prog.runtimeErrType, V: concStr("sync: RUnlock of unlocked RWMutex")}, "fatal error: sync: RUnlock of unlocked RWMutex", true)
			return panicked{}
		}
		ms.readers[g]--
		if ms.readers[g] == 0 {
			delete(ms.readers, g)
		}
		e.noteRelease(g, c, ms)
		e.wakeLockWaiters()
		return nil
	}
	trylock := func(e *Exec, g *G, a []Value) Value {
		c, ms := e.mutexOf(a[0])
		if ms.holder != nil || len(ms.readers) > 0 {
			return e.tc.Bool(false)
		}
		ms.holder = g
		e.noteAcquire(g, c, ms, false)
		return e.tc.Bool(true)
	}
	p.reg("(*sync.Mutex).Lock", lock)
	p.reg("(*sync.Mutex).Unlock", unlock)
	p.reg("(*sync.Mutex).TryLock", trylock)
	p.reg("(*sync.RWMutex).Lock", lock)
	p.reg("(*sync.RWMutex).Unlock", unlock)
	p.reg("(*sync.RWMutex).RLock", rlock)
	p.reg("(*sync.RWMutex).RUnlock", runlock)

	wgOf := func(e *Exec, v Value) *wgState {
		c := v.(PtrV).C
		w := e.wgs[c]
		if w == nil {
			w = &wgState{vc: VC{}}
			e.wgs[c] = w
		}
		return w
	}
	p.reg("(*sync.WaitGroup).Add", func(e *Exec, g *G, a []Value) Value {
		w := wgOf(e, a[0])
		d := a[1].(*Term)
		w.n += int(int64(e.concretize(d, "WaitGroup.Add")))
		w.vc.join(g.vc)
		g.vc.tick(g.id)
		if w.n < 0 {
			e.raise(g, IfaceV{T: e.prog.runtimeErrType, V: concStr("sync: negative WaitGroup counter")}, "sync: negative WaitGroup counter", true)
			return panicked{}
		}
		if w.n == 0 {
			e.wakeLockWaiters()
		}
		return nil
	})
	p.reg("(*sync.WaitGroup).Done", func(e *Exec, g *G, a []Value) Value {
		w := wgOf(e, a[0])
		w.n--
		w.vc.join(g.vc)
		g.vc.tick(g.id)
		if w.n < 0 {
			e.raise(g, IfaceV{T: e.prog.runtimeErrType, V: concStr("sync: negative WaitGroup counter")}, "sync: negative WaitGroup counter", true)
			return panicked{}
		}
		if w.n == 0 {
			e.wakeLockWaiters()
		}
		return nil
	})
	p.reg("(*sync.WaitGroup).Wait", func(e *Exec, g *G, a []Value) Value {
		w := wgOf(e, a[0])
		if w.n > 0 {
			e.block(g, "WaitGroup.Wait")
			e.lockWaiters = append(e.lockWaiters, g)
			return blockedResult{}
		}
		g.vc.join(w.vc)
		return nil
	})
	// sync.Pool: LIFO reuse of what was Put (the adversarial, and common, behaviour); New otherwise
	p.reg("(*sync.Pool).Get", func(e *Exec, g *G, a []Value) Value {
		pc := a[0].(PtrV).C
		g.vc.tick(g.id)
		if st := e.pools[pc]; st != nil && len(st.items) > 0 {
			v := st.items[len(st.items)-1]
			st.items = st.items[:len(st.items)-1]
			g.vc.join(st.vc)
			return v
		}
		poolT := pc.T.Underlying().(*types.Struct)
		for i := 0; i < poolT.NumFields(); i++ {
			if poolT.Field(i).Name() == "New" {
				fn, _ := e.load(pc.F[i]).(*FuncV)
				if fn == nil {
					return IfaceV{}
				}
				return tailCall{fn: fn}
			}
		}
		return IfaceV{}
	})
	p.reg("(*sync.Pool).Put", func(e *Exec, g *G, a []Value) Value {
		pc := a[0].(PtrV).C
		st := e.pools[pc]
		if st == nil {
			st = &poolState{vc: VC{}}
			e.pools[pc] = st
		}
		g.vc.tick(g.id)
		st.vc.join(g.vc)
		st.items = append(st.items, a[1])
		return nil
	})

	// atomics on plain cells
	atomLoad := func(e *Exec, g *G, a []Value) Value {
		g.vc.tick(g.id)
		pv := a[0].(PtrV)
		e.atomicSync(g, pv)
		return e.loadPtrNoRace(pv)
	}
	atomStore := func(e *Exec, g *G, a []Value) Value {
		pv := a[0].(PtrV)
		e.atomicSync(g, pv)
		e.storePtrNoRace(pv, a[1])
		return nil
	}
	atomAdd := func(e *Exec, g *G, a []Value) Value {
		pv := a[0].(PtrV)
		e.atomicSync(g, pv)
		old := e.loadPtrNoRace(pv).(*Term)
		nv := e.tc.Bin(OAdd, old, a[1].(*Term))
		e.storePtrNoRace(pv, nv)
		return nv
	}
	atomCAS := func(e *Exec, g *G, a []Value) Value {
		pv := a[0].(PtrV)
		e.atomicSync(g, pv)
		old := e.loadPtrNoRace(pv)
		eq := e.equal(old, a[1], nil)
		if e.branch(eq, "cas") {
			e.storePtrNoRace(pv, a[2])
			return e.tc.Bool(true)
		}
		return e.tc.Bool(false)
	}
	atomSwap := func(e *Exec, g *G, a []Value) Value {
		pv := a[0].(PtrV)
		e.atomicSync(g, pv)
		old := e.loadPtrNoRace(pv)
		e.storePtrNoRace(pv, a[1])
		return old
	}
	for _, t := range []string{"Int32", "Int64", "Uint32", "Uint64", "Uintptr", "Pointer"} {
		p.reg("sync/atomic.Load"+t, atomLoad)
		p.reg("sync/atomic.Store"+t, atomStore)
		p.reg("sync/atomic.Add"+t, atomAdd)
		p.reg("sync/atomic.CompareAndSwap"+t, atomCAS)
		p.reg("sync/atomic.Swap"+t, atomSwap)
	}
	// typed atomics: operate on the first field "v" (or second after the noCopy / align fields)
	typed := func(op string) intrinsicFn {
		return func(e *Exec, g *G, a []Value) Value {
			pc := a[0].(PtrV).C
			var vc *Cell
			st := pc.T.Underlying().(*types.Struct)
			for i := 0; i < st.NumFields(); i++ {
				if st.Field(i).Name() == "v" {
					vc = pc.F[i]
				}
			}
			if vc == nil {
				panic(unsupported{"typed atomic without v field: " + pc.T.String()})
			}
			args := append([]Value{PtrV{C: vc}}, a[1:]...)
			switch op {
			case "Load":
				return atomLoad(e, g, args)
			case "Store":
				return atomStore(e, g, args)
			case "Add":
				return atomAdd(e, g, args)
			case "CompareAndSwap":
				return atomCAS(e, g, args)
			case "Swap":
				return atomSwap(e, g, args)
			}
			panic("typed atomic op")
		}
	}
	for _, t := range []string{"Int32", "Int64", "Uint32", "Uint64", "Uintptr"} {
		for _, op := range []string{"Load", "Store", "Add", "CompareAndSwap", "Swap"} {
			p.reg("(*sync/atomic."+t+")."+op, typed(op))
		}
	}
	p.reg("(*sync/atomic.Bool).Load", func(e *Exec, g *G, a []Value) Value {
		pc := a[0].(PtrV).C
		vc := pc.F[len(pc.F)-1]
		e.atomicSync(g, PtrV{C: vc})
		return e.tc.Not(e.tc.Eq(e.loadPtrNoRace(PtrV{C: vc}).(*Term), e.tc.Const(32, 0)))
	})
	p.reg("(*sync/atomic.Bool).Store", func(e *Exec, g *G, a []Value) Value {
		pc := a[0].(PtrV).C
		vc := pc.F[len(pc.F)-1]
		e.atomicSync(g, PtrV{C: vc})
		e.storePtrNoRace(PtrV{C: vc}, e.tc.Ite(a[1].(*Term), e.tc.Const(32, 1), e.tc.Const(32, 0)))
		return nil
	})
	// atomic.Value / atomic.Pointer[T]: side table keyed by the object cell
	p.reg("(*sync/atomic.Value).Load", func(e *Exec, g *G, a []Value) Value {
		pc := a[0].(PtrV).C
		e.atomicSync(g, PtrV{C: pc.F[0]})
		if v, ok := e.atomVals[pc]; ok {
			return v
		}
		return IfaceV{}
	})
	p.reg("(*sync/atomic.Value).Store", func(e *Exec, g *G, a []Value) Value {
		pc := a[0].(PtrV).C
		e.atomicSync(g, PtrV{C: pc.F[0]})
		e.atomVals[pc] = a[1]
		return nil
	})
	p.reg("(*sync/atomic.Pointer[T]).Load", func(e *Exec, g *G, a []Value) Value {
		pc := a[0].(PtrV).C
		e.atomicSync(g, PtrV{C: pc.F[len(pc.F)-1]})
		if v, ok := e.atomVals[pc]; ok {
			return v
		}
		return PtrV{}
	})
	p.reg("(*sync/atomic.Pointer[T]).Store", func(e *Exec, g *G, a []Value) Value {
		pc := a[0].(PtrV).C
		e.atomicSync(g, PtrV{C: pc.F[len(pc.F)-1]})
		e.atomVals[pc] = a[1]
		return nil
	})
	p.reg("(*sync/atomic.Pointer[T]).Swap", func(e *Exec, g *G, a []Value) Value {
		pc := a[0].(PtrV).C
		e.atomicSync(g, PtrV{C: pc.F[len(pc.F)-1]})
		var cur Value = PtrV{}
		if v, ok := e.atomVals[pc]; ok {
			cur = v
		}
		e.atomVals[pc] = a[1]
		return cur
	})
	p.reg("(*sync/atomic.Pointer[T]).CompareAndSwap", func(e *Exec, g *G, a []Value) Value {
		pc := a[0].(PtrV).C
		e.atomicSync(g, PtrV{C: pc.F[len(pc.F)-1]})
		var cur Value = PtrV{}
		if v, ok := e.atomVals[pc]; ok {
			cur = v
		}
		if e.equal(cur, a[1], nil).IsTrue() {
			e.atomVals[pc] = a[2]
			return e.tc.Bool(true)
		}
		return e.tc.Bool(false)
	})
	p.reg("runtime.Gosched", func(e *Exec, g *G, a []Value) Value { return nil })

	// sync.Map as an association list keyed by interface values (its internals use unsafe)
	smap := func(e *Exec, v Value) *MapV {
		c := v.(PtrV).C
		if m, ok := e.syncMaps[c]; ok {
			return m
		}
		e.nextID++
		m := &MapV{ID: e.nextID}
		e.syncMaps[c] = m
		return m
	}
	p.reg("(*sync.Map).Load", func(e *Exec, g *G, a []Value) Value {
		m := smap(e, a[0])
		g.vc.tick(g.id)
		if en := e.mapFind(m, a[1]); en != nil {
			return TupleV{en.V, e.tc.Bool(true)}
		}
		return TupleV{IfaceV{}, e.tc.Bool(false)}
	})
	p.reg("(*sync.Map).Store", func(e *Exec, g *G, a []Value) Value {
		m := smap(e, a[0])
		g.vc.tick(g.id)
		if en := e.mapFind(m, a[1]); en != nil {
			en.V = a[2]
			return nil
		}
		m.E = append(m.E, &mapEntry{K: a[1], V: a[2]})
		return nil
	})
	p.reg("(*sync.Map).LoadOrStore", func(e *Exec, g *G, a []Value) Value {
		m := smap(e, a[0])
		g.vc.tick(g.id)
		if en := e.mapFind(m, a[1]); en != nil {
			return TupleV{en.V, e.tc.Bool(true)}
		}
		m.E = append(m.E, &mapEntry{K: a[1], V: a[2]})
		return TupleV{a[2], e.tc.Bool(false)}
	})
	p.reg("(*sync.Map).Delete", func(e *Exec, g *G, a []Value) Value {
		m := smap(e, a[0])
		if en := e.mapFind(m, a[1]); en != nil {
			for i, x := range m.E {
				if x == en {
					m.E = append(append([]*mapEntry{}, m.E[:i]...), m.E[i+1:]...)
					break
				}
			}
		}
		return nil
	})
}

func (e *Exec) wakeLockWaiters() {
	ws := e.lockWaiters
	e.lockWaiters = nil
	for _, g := range ws {
		e.wake(g)
	}
}

// ---------------------------------------------------------------------------
// time: Time{wall, ext, loc}. Model encoding: non-zero instants have wall = 1<<63 and ext = ns on
// one common (monotonic) axis; the zero Time is all zero. Only the operations below are modelled.

func (e *Exec) timeVal(ns *Term) Value {
	return &StructV{F: []Value{e.tc.Const(64, 1<<63), ns, PtrV{}}}
}

func timeParts(v Value) (wall, ext *Term) {
	s := v.(*StructV)
	return s.F[0].(*Term), s.F[1].(*Term)
}

func registerTime(p *Program) {
	p.reg("time.Now", func(e *Exec, g *G, a []Value) Value {
		t := e.input("clock", BV(64))
		tc := e.tc
		lo := tc.Const(64, 1<<40)
		if e.clockLast != nil {
			lo = e.clockLast
		}
		e.assume(tc.And(tc.Cmp(OSLE, lo, t), tc.Cmp(OSLT, t, tc.Const(64, 1<<61))))
		e.clockLast = t
		return e.timeVal(t)
	})
	p.reg("time.Since", func(e *Exec, g *G, a []Value) Value {
		t := e.input("clock", BV(64))
		tc := e.tc
		lo := tc.Const(64, 1<<40)
		if e.clockLast != nil {
			lo = e.clockLast
		}
		e.assume(tc.And(tc.Cmp(OSLE, lo, t), tc.Cmp(OSLT, t, tc.Const(64, 1<<61))))
		e.clockLast = t
		_, ext := timeParts(a[0])
		return tc.Bin(OSub, t, ext)
	})
	p.reg("time.Sleep", func(e *Exec, g *G, a []Value) Value { return nil })
	p.reg("time.Until", func(e *Exec, g *G, a []Value) Value {
		t := e.input("clock", BV(64))
		tc := e.tc
		lo := tc.Const(64, 1<<40)
		if e.clockLast != nil {
			lo = e.clockLast
		}
		e.assume(tc.And(tc.Cmp(OSLE, lo, t), tc.Cmp(OSLT, t, tc.Const(64, 1<<61))))
		e.clockLast = t
		_, ext := timeParts(a[0])
		return tc.Bin(OSub, ext, t)
	})
	// timers (context.WithTimeout, time.AfterFunc): created and stopped, but they do not fire
	// within an explored run (stated assumption: runs are short compared with the timeouts)
	p.reg("time.AfterFunc", func(e *Exec, g *G, a []Value) Value {
		c := e.newCell(e.prog.namedType("time", "Timer"))
		return PtrV{C: c}
	})
	p.reg("(*time.Timer).Stop", func(e *Exec, g *G, a []Value) Value { return e.tc.Bool(true) })
	p.reg("(*time.Timer).Reset", func(e *Exec, g *G, a []Value) Value { return e.tc.Bool(true) })
	p.reg("(time.Time).Add", func(e *Exec, g *G, a []Value) Value {
		wall, ext := timeParts(a[0])
		d := a[1].(*Term)
		return &StructV{F: []Value{wall, e.tc.Bin(OAdd, ext, d), a[0].(*StructV).F[2]}}
	})
	p.reg("(time.Time).Sub", func(e *Exec, g *G, a []Value) Value {
		_, x := timeParts(a[0])
		_, y := timeParts(a[1])
		return e.tc.Bin(OSub, x, y)
	})
	key := func(e *Exec, v Value) (isZero *Term, ext *Term) {
		wall, ext := timeParts(v)
		return e.tc.Eq(wall, e.tc.Const(64, 0)), ext
	}
	p.reg("(time.Time).After", func(e *Exec, g *G, a []Value) Value {
		tc := e.tc
		tz, te := key(e, a[0])
		uz, ue := key(e, a[1])
		return tc.Ite(tc.And(tz, uz), tc.Cmp(OSLT, ue, te), tc.Ite(tz, tc.Bool(false), tc.Ite(uz, tc.Bool(true), tc.Cmp(OSLT, ue, te))))
	})
	p.reg("(time.Time).Before", func(e *Exec, g *G, a []Value) Value {
		tc := e.tc
		tz, te := key(e, a[0])
		uz, ue := key(e, a[1])
		return tc.Ite(tc.And(tz, uz), tc.Cmp(OSLT, te, ue), tc.Ite(uz, tc.Bool(false), tc.Ite(tz, tc.Bool(true), tc.Cmp(OSLT, te, ue))))
	})
	p.reg("(time.Time).Equal", func(e *Exec, g *G, a []Value) Value {
		tc := e.tc
		w1, e1 := timeParts(a[0])
		w2, e2 := timeParts(a[1])
		return tc.And(tc.Eq(w1, w2), tc.Eq(e1, e2))
	})
	p.reg("(time.Time).IsZero", func(e *Exec, g *G, a []Value) Value {
		tc := e.tc
		w, x := timeParts(a[0])
		return tc.And(tc.Eq(w, tc.Const(64, 0)), tc.Eq(x, tc.Const(64, 0)))
	})
	p.reg("(time.Time).UnixNano", func(e *Exec, g *G, a []Value) Value {
		_, x := timeParts(a[0])
		return x
	})
	p.reg("(time.Duration).Seconds", func(e *Exec, g *G, a []Value) Value {
		d := a[0].(*Term)
		if d.IsConst() {
			return &FloatV{Known: true, F: float64(d.SVal()) / 1e9, Op: "secs", T: d}
		}
		return &FloatV{Op: "secs", T: d}
	})
	p.reg("(time.Duration).Milliseconds", func(e *Exec, g *G, a []Value) Value {
		d := a[0].(*Term)
		if d.IsConst() {
			return e.tc.Const(64, uint64(d.SVal()/1e6))
		}
		panic(unsupported{"Duration.Milliseconds on symbolic duration"})
	})
	p.reg("(time.Duration).String", func(e *Exec, g *G, a []Value) Value { return e.opaqueStr() })
	p.reg("(time.Time).String", func(e *Exec, g *G, a []Value) Value { return e.opaqueStr() })
}

func (e *Exec) opaqueStr() *StrV {
	e.opaqueN++
	return &StrV{Kind: SOpaque, ID: e.opaqueN}
}

// ---------------------------------------------------------------------------
// fmt / errors

func (e *Exec) concreteArg(v Value) (interface{}, bool) {
	switch x := v.(type) {
	case IfaceV:
		if x.T == nil {
			return nil, true
		}
		if _, _, ok := intWidth(x.T); ok {
			t := x.V.(*Term)
			if !t.IsConst() {
				return nil, false
			}
			_, signed, _ := intWidth(x.T)
			if signed {
				return t.SVal(), true
			}
			return t.Val, true
		}
		if isString(x.T) {
			s := x.V.(*StrV)
			if s.Kind == SConc {
				return s.S, true
			}
			return nil, false
		}
		if isBool(x.T) {
			t := x.V.(*Term)
			if t.IsConst() {
				return t.Val == 1, true
			}
		}
		// composite values of concrete scalars: rendered the way %v prints them
		if txt, ok := e.renderConcrete(x.V, x.T, 0); ok {
			return renderedText(txt), true
		}
		return nil, false
	}
	return nil, false
}

// renderedText prints as itself under every verb
type renderedText string

func (r renderedText) Format(f fmt.State, verb rune) { io.WriteString(f, string(r)) }

func (e *Exec) renderConcrete(v Value, t types.Type, depth int) (string, bool) {
	if depth > 4 || v == nil {
		return "", false
	}
	if _, signed, ok := intWidth(t); ok {
		tm, isT := v.(*Term)
		if !isT || !tm.IsConst() {
			return "", false
		}
		if signed {
			return strconv.FormatInt(tm.SVal(), 10), true
		}
		return strconv.FormatUint(tm.Val, 10), true
	}
	if isString(t) {
		sv, isS := v.(*StrV)
		if !isS || sv.Kind != SConc {
			return "", false
		}
		return sv.S, true
	}
	if isBool(t) {
		tm, isT := v.(*Term)
		if !isT || !tm.IsConst() {
			return "", false
		}
		return strconv.FormatBool(tm.Val == 1), true
	}
	switch u := t.Underlying().(type) {
	case *types.Struct:
		sv, ok := v.(*StructV)
		if !ok {
			return "", false
		}
		parts := make([]string, len(sv.F))
		for i := range sv.F {
			p, ok := e.renderConcrete(sv.F[i], u.Field(i).Type(), depth+1)
			if !ok {
				return "", false
			}
			parts[i] = p
		}
		return "{" + strings.Join(parts, " ") + "}", true
	case *types.Slice:
		sl, ok := v.(SliceV)
		if !ok {
			return "", false
		}
		if sl.IsNil() {
			return "[]", true
		}
		if sl.G == nil || !sl.Len.IsConst() || !sl.Off.IsConst() {
			return "", false
		}
		var parts []string
		for i := 0; i < int(sl.Len.Val); i++ {
			p, ok := e.renderConcrete(e.load(sl.G.E[int(sl.Off.Val)+i]), u.Elem(), depth+1)
			if !ok {
				return "", false
			}
			parts = append(parts, p)
		}
		return "[" + strings.Join(parts, " ") + "]", true
	}
	return "", false
}

func (e *Exec) sliceToValues(s SliceV) []Value {
	if s.IsNil() {
		return nil
	}
	n := int(e.concretize(s.Len, "variadic length"))
	off := int(e.concretize(s.Off, "variadic offset"))
	out := make([]Value, n)
	for i := 0; i < n; i++ {
		out[i] = e.load(s.G.E[off+i])
	}
	return out
}

func (e *Exec) sprintf(format string, args []Value) *StrV {
	cargs := make([]interface{}, len(args))
	for i, a := range args {
		c, ok := e.concreteArg(a)
		if !ok {
			return e.opaqueStr()
		}
		cargs[i] = c
	}
	return concStr(fmt.Sprintf(format, cargs...))
}

func registerFmt(p *Program) {
	p.reg("fmt.Sprintf", func(e *Exec, g *G, a []Value) Value {
		f := a[0].(*StrV)
		if f.Kind != SConc {
			return e.opaqueStr()
		}
		return e.sprintf(f.S, e.sliceToValues(a[1].(SliceV)))
	})
	p.reg("fmt.Sprint", func(e *Exec, g *G, a []Value) Value {
		args := e.sliceToValues(a[0].(SliceV))
		if len(args) == 1 {
			if iv, ok := args[0].(IfaceV); ok && iv.T != nil {
				if _, _, isInt := intWidth(iv.T); isInt {
					t := iv.V.(*Term)
					if !t.IsConst() {
						// decimal rendering of an integer: keep the number
						return &StrV{Kind: SPortText, Port: e.tc.Extract(e.tc.ZExt(t, 64), 15, 0), Num: e.to64s(t, iv.T)}
					}
				}
			}
		}
		cargs := make([]interface{}, len(args))
		for i, x := range args {
			c, ok := e.concreteArg(x)
			if !ok {
				return e.opaqueStr()
			}
			cargs[i] = c
		}
		return concStr(fmt.Sprint(cargs...))
	})
	p.reg("fmt.Errorf", func(e *Exec, g *G, a []Value) Value {
		f := a[0].(*StrV)
		args := e.sliceToValues(a[1].(SliceV))
		var msg *StrV
		if f.Kind == SConc {
			msg = e.sprintf(strings.ReplaceAll(f.S, "%w", "%v"), args)
		} else {
			msg = e.opaqueStr()
		}
		// find %w operand
		var wrapped Value
		if f.Kind == SConc {
			verbs := 0
			for i := 0; i+1 < len(f.S); i++ {
				if f.S[i] == '%' {
					if f.S[i+1] == '%' {
						i++
						continue
					}
					j := i + 1
					for j < len(f.S) && strings.ContainsRune("+-# 0123456789.", rune(f.S[j])) {
						j++
					}
					if j < len(f.S) && f.S[j] == 'w' && verbs < len(args) {
						wrapped = args[verbs]
					}
					verbs++
					i = j
				}
			}
		}
		if wrapped != nil {
			wt := types.NewPointer(e.prog.namedType("fmt", "wrapError"))
			c := e.newCell(wt.Elem())
			e.store(c.F[0], msg)
			e.store(c.F[1], wrapped)
			return IfaceV{T: wt, V: PtrV{C: c}}
		}
		et := types.NewPointer(e.prog.namedType("errors", "errorString"))
		c := e.newCell(et.Elem())
		e.store(c.F[0], msg)
		return IfaceV{T: et, V: PtrV{C: c}}
	})
	p.reg("fmt.Println", func(e *Exec, g *G, a []Value) Value {
		return TupleV{e.tc.Const(64, 0), IfaceV{}}
	})
	p.reg("fmt.Printf", func(e *Exec, g *G, a []Value) Value {
		return TupleV{e.tc.Const(64, 0), IfaceV{}}
	})
	p.reg("fmt.Fprintf", func(e *Exec, g *G, a []Value) Value {
		return TupleV{e.tc.Const(64, 0), IfaceV{}}
	})

	p.reg("errors.Is", func(e *Exec, g *G, a []Value) Value { return e.errorsIs(a[0].(IfaceV), a[1].(IfaceV)) })
	p.reg("errors.As", func(e *Exec, g *G, a []Value) Value { return e.errorsAs(g, a[0].(IfaceV), a[1].(IfaceV)) })
}

func (e *Exec) to64s(t *Term, typ types.Type) *Term {
	_, signed, _ := intWidth(typ)
	if signed {
		return e.tc.SExt(t, 64)
	}
	return e.tc.ZExt(t, 64)
}

func (e *Exec) unwrapErr(err IfaceV) []IfaceV {
	if err.T == nil {
		return nil
	}
	m := e.prog.lookupMethodByName(err.T, nil, "Unwrap")
	if m == nil {
		return nil
	}
	res := m.Signature.Results()
	if res.Len() != 1 {
		return nil
	}
	r := e.callSync(m, []Value{err.V}, nil)
	switch x := r.(type) {
	case IfaceV:
		if x.T == nil {
			return nil
		}
		return []IfaceV{x}
	case SliceV:
		var out []IfaceV
		for _, v := range e.sliceToValues(x) {
			out = append(out, v.(IfaceV))
		}
		return out
	}
	return nil
}

func (e *Exec) errorsIs(err, target IfaceV) *Term {
	tc := e.tc
	if err.T == nil || target.T == nil {
		return tc.Bool(err.T == nil && target.T == nil)
	}
	var walk func(x IfaceV) *Term
	walk = func(x IfaceV) *Term {
		if x.T == nil {
			return tc.Bool(false)
		}
		if types.Identical(x.T, target.T) && types.Comparable(x.T) {
			c := e.equal(x.V, target.V, x.T)
			if c.IsTrue() {
				return c
			}
			if !c.IsFalse() && e.branch(c, "errors.Is") {
				return tc.Bool(true)
			}
		}
		if m := e.prog.lookupMethodByName(x.T, nil, "Is"); m != nil && m.Signature.Params().Len() == 1 {
			r := e.callSync(m, []Value{x.V, target}, nil).(*Term)
			if e.branch(r, "errors.Is method") {
				return tc.Bool(true)
			}
		}
		for _, u := range e.unwrapErr(x) {
			if walk(u).IsTrue() {
				return tc.Bool(true)
			}
		}
		return tc.Bool(false)
	}
	return walk(err)
}

func (e *Exec) errorsAs(g *G, err, target IfaceV) *Term {
	tc := e.tc
	if target.T == nil {
		e.raise(g, IfaceV{T: types.Typ[types.String], V: concStr("errors: target cannot be nil")}, "errors: target cannot be nil", false)
		return tc.Bool(false)
	}
	pt, ok := target.T.Underlying().(*types.Pointer)
	if !ok {
		panic(unsupported{"errors.As target not a pointer"})
	}
	tt := pt.Elem()
	dst := target.V.(PtrV)
	var walk func(x IfaceV) bool
	walk = func(x IfaceV) bool {
		if x.T == nil {
			return false
		}
		if types.IsInterface(tt) {
			if types.Implements(x.T, tt.Underlying().(*types.Interface)) {
				e.storePtr(dst, x)
				return true
			}
		} else if types.Identical(x.T, tt) {
			e.storePtr(dst, x.V)
			return true
		}
		if m := e.prog.lookupMethodByName(x.T, nil, "As"); m != nil && m.Signature.Params().Len() == 1 {
			r := e.callSync(m, []Value{x.V, target}, nil).(*Term)
			if e.branch(r, "errors.As method") {
				return true
			}
		}
		for _, u := range e.unwrapErr(x) {
			if walk(u) {
				return true
			}
		}
		return false
	}
	return tc.Bool(walk(err))
}

// ---------------------------------------------------------------------------
// bytealg & friends

func (e *Exec) sliceTerms(s SliceV) []*Term {
	if s.IsNil() {
		return nil
	}
	n := int(e.concretize(s.Len, "byte slice length"))
	out := make([]*Term, n)
	for i := 0; i < n; i++ {
		out[i] = e.arrRead(s.A, e.tc.Bin(OAdd, s.Off, e.tc.Const(64, uint64(i))))
	}
	e.accessArr(s.A, false)
	return out
}

func registerBytealg(p *Program) {
	indexByte := func(e *Exec, bs []*Term, c *Term) Value {
		tc := e.tc
		res := tc.Const(64, ^uint64(0))
		for i := len(bs) - 1; i >= 0; i-- {
			res = tc.Ite(tc.Eq(bs[i], c), tc.Const(64, uint64(i)), res)
		}
		return res
	}
	p.reg("internal/bytealg.IndexByte", func(e *Exec, g *G, a []Value) Value {
		return indexByte(e, e.sliceTerms(a[0].(SliceV)), a[1].(*Term))
	})
	indexByteStr := func(e *Exec, g *G, a []Value) Value {
		s := a[0].(*StrV)
		c := a[1].(*Term)
		if s.Kind == SIPText && c.IsConst() && c.Val == '%' {
			// the text of an IP address contains '%' exactly in front of its zone
			if s.Zone == "" {
				return e.tc.Const(64, ^uint64(0))
			}
			return e.ipTextLen(s.IP)
		}
		return indexByte(e, e.strBytes(s), c)
	}
	cmpStr := func(e *Exec, g *G, a []Value) Value {
		x, y := a[0].(*StrV), a[1].(*StrV)
		if x.Kind == SConc && y.Kind == SConc {
			return e.tc.Const(64, uint64(int64(strings.Compare(x.S, y.S))))
		}
		panic(unsupported{"comparison of symbolic strings"})
	}
	p.reg("internal/bytealg.CompareString", cmpStr)
	p.reg("strings.Compare", cmpStr)
	p.reg("internal/bytealg.IndexByteString", indexByteStr)
	p.reg("strings.IndexByte", indexByteStr)
	p.reg("internal/bytealg.Equal", func(e *Exec, g *G, a []Value) Value {
		x, y := e.sliceTerms(a[0].(SliceV)), e.sliceTerms(a[1].(SliceV))
		if len(x) != len(y) {
			return e.tc.Bool(false)
		}
		var cs []*Term
		for i := range x {
			cs = append(cs, e.tc.Eq(x[i], y[i]))
		}
		return e.tc.And(cs...)
	})
	p.reg("bytes.Equal", func(e *Exec, g *G, a []Value) Value {
		x, y := e.sliceTerms(a[0].(SliceV)), e.sliceTerms(a[1].(SliceV))
		if len(x) != len(y) {
			return e.tc.Bool(false)
		}
		var cs []*Term
		for i := range x {
			cs = append(cs, e.tc.Eq(x[i], y[i]))
		}
		return e.tc.And(cs...)
	})
	p.reg("strings.ToUpper", func(e *Exec, g *G, a []Value) Value {
		s := a[0].(*StrV)
		if s.Kind == SConc {
			return concStr(strings.ToUpper(s.S))
		}
		panic(unsupported{"strings.ToUpper on symbolic string"})
	})
	p.reg("strings.ToLower", func(e *Exec, g *G, a []Value) Value {
		s := a[0].(*StrV)
		if s.Kind == SConc {
			return concStr(strings.ToLower(s.S))
		}
		panic(unsupported{"strings.ToLower on symbolic string"})
	})
}

// ---------------------------------------------------------------------------
// logging policies

func zeroResults(e *Exec, fn *ssa.Function) Value {
	res := fn.Signature.Results()
	switch res.Len() {
	case 0:
		return nil
	case 1:
		return e.zero(res.At(0).Type())
	}
	return e.zero(res)
}

func slogPolicy(p *Program, fn *ssa.Function) intrinsicFn {
	name := fn.Name()
	return func(e *Exec, g *G, a []Value) Value {
		switch name {
		case "Enabled":
			// verifDebugLogging(true): every level is enabled (messages are still not formatted,
			// but the code that builds their arguments runs)
			if v, ok := e.userState["slog.debug"]; ok && v.(*Term).IsTrue() {
				return e.tc.Bool(true)
			}
			return e.tc.Bool(false)
		case "New":
			t := e.prog.namedType("log/slog", "Logger")
			return PtrV{C: e.newCell(t)}
		case "Default":
			t := e.prog.namedType("log/slog", "Logger")
			if v, ok := e.userState["slog.default"]; ok {
				return v
			}
			v := PtrV{C: e.newCell(t)}
			e.userState["slog.default"] = v
			return v
		}
		return zeroResults(e, fn)
	}
}

func noopPolicy(p *Program, fn *ssa.Function) intrinsicFn {
	return func(e *Exec, g *G, a []Value) Value { return zeroResults(e, fn) }
}

func registerMisc(p *Program) {
	p.reg("runtime/debug.PrintStack", func(e *Exec, g *G, a []Value) Value { return nil })
	p.reg("os.Exit", func(e *Exec, g *G, a []Value) Value {
		e.event("crash", "os.Exit called")
		panic(pathEnd{"exit"})
	})
	p.reg("runtime.KeepAlive", func(e *Exec, g *G, a []Value) Value { return nil })
	p.reg("runtime.SetFinalizer", func(e *Exec, g *G, a []Value) Value { return nil })
}

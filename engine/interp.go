package main

// Symbolic interpreter over go/ssa: frames, goroutines, instruction semantics.

import (
	"fmt"
	"go/constant"
	"go/token"
	"go/types"
	"strconv"
	"strings"

	"golang.org/x/tools/go/ssa"
)

type unsupported struct{ msg string }
type pathEnd struct{ reason string }

type deferred struct {
	fn   Value
	args []Value
	// for invoke-mode defers
	method *types.Func
	recv   Value
}

type Frame struct {
	fn        *ssa.Function
	env       map[ssa.Value]Value
	block     *ssa.BasicBlock
	prev      *ssa.BasicBlock
	ip        int
	defers    []*deferred
	dest      ssa.Value   // instruction in caller receiving the result
	onReturn  func(Value) // alternative continuation
	unwinding bool
	isDefer   bool
	owner     *Frame // frame whose defer list this call came from
	recovered bool
}

type panicState struct {
	val     Value // IfaceV
	msg     string
	runtime bool
	where   string
}

type GStatus int

const (
	GRunnable GStatus = iota
	GBlocked
	GDone
	GQuiesce
)

type waiter struct {
	g      *G
	isSend bool
	val    Value
	ok     bool
	done   bool
	group  *selGroup
	caseIx int
	ch     *ChanV
}

type selGroup struct {
	done   bool
	chosen int
	val    Value
	ok     bool
}

type G struct {
	id       int
	frames   []*Frame
	status   GStatus
	panic    *panicState
	crashed  bool
	waitW    *waiter   // pending single chan op
	waitSel  *selGroup // pending select
	waitDesc string
	held     []*lockRef // locks held (for lock-set / lock-order)
	vc       VC
	name     string
	isMain   bool
	slice    int // steps executed since this goroutine was last scheduled in
}

func (g *G) top() *Frame { return g.frames[len(g.frames)-1] }

type lockRef struct {
	cell *Cell
	name string
	read bool
}

// ---------------------------------------------------------------------------

func (e *Exec) newG(name string) *G {
	e.nextG++
	g := &G{id: e.nextG, name: name, vc: VC{}}
	e.gs = append(e.gs, g)
	return g
}

func (e *Exec) pushFrame(g *G, fn *ssa.Function, args []Value, env []Value) *Frame {
	if fn.Blocks == nil {
		panic(unsupported{"call to function without body: " + fn.String()})
	}
	if len(g.frames) > 400 {
		panic(unsupported{"recursion depth exceeded at " + fn.String()})
	}
	e.noteFunc(fn)
	f := &Frame{fn: fn, env: make(map[ssa.Value]Value, 16), block: fn.Blocks[0]}
	if len(args) != len(fn.Params) {
		panic(fmt.Sprintf("arity mismatch calling %s: %d vs %d", fn, len(args), len(fn.Params)))
	}
	for i, p := range fn.Params {
		f.env[p] = args[i]
	}
	for i, fv := range fn.FreeVars {
		f.env[fv] = env[i]
	}
	g.frames = append(g.frames, f)
	return f
}

func (e *Exec) noteFunc(fn *ssa.Function) {
	name := fn.String()
	if _, ok := e.funcs[name]; !ok {
		n := 0
		for _, b := range fn.Blocks {
			n += len(b.Instrs)
		}
		e.funcs[name] = n
	}
}

// get evaluates an SSA operand.
func (e *Exec) get(f *Frame, v ssa.Value) Value {
	switch v := v.(type) {
	case *ssa.Const:
		return e.constVal(v)
	case *ssa.Global:
		return PtrV{C: e.global(v)}
	case *ssa.Function:
		return &FuncV{Fn: v}
	case *ssa.Builtin:
		return &FuncV{Intr: "builtin:" + v.Name()}
	}
	r, ok := f.env[v]
	if !ok {
		panic(fmt.Sprintf("unbound SSA value %s (%T) in %s", v.Name(), v, f.fn))
	}
	return r
}

func (e *Exec) constVal(c *ssa.Const) Value {
	t := c.Type()
	if c.Value == nil {
		return e.zero(t)
	}
	if tp, ok := t.(*types.TypeParam); ok {
		panic(unsupported{"const of type param " + tp.String()})
	}
	switch u := t.Underlying().(type) {
	case *types.Basic:
		if w, _, ok := intWidth(t); ok {
			if i, exact := constant.Int64Val(constant.ToInt(c.Value)); exact {
				return e.tc.Const(w, uint64(i))
			}
			ui, _ := constant.Uint64Val(constant.ToInt(c.Value))
			return e.tc.Const(w, ui)
		}
		if isBool(t) {
			return e.tc.Bool(constant.BoolVal(c.Value))
		}
		if isString(t) {
			return concStr(constant.StringVal(c.Value))
		}
		if isFloat(t) {
			fv, _ := constant.Float64Val(c.Value)
			return &FloatV{Known: true, F: fv}
		}
		panic(unsupported{fmt.Sprintf("const basic kind %v", u.Kind())})
	}
	panic(unsupported{"const of type " + t.String()})
}

// run drives all goroutines until the main goroutine finishes or nothing can run.
const spinLimit = 600000

func (e *Exec) run() {
	for {
		g := e.cur
		if g == nil || g.status != GRunnable {
			g = e.schedule()
			if g == nil {
				return
			}
			e.cur = g
			g.slice = 0
		}
		// a goroutine other than main that runs this long without ever blocking is spinning (e.g.
		// a loop retrying on a socket that fails at once): park it for good so that the rest of the
		// run, and its assertions, are still evaluated
		g.slice++
		if g.slice > spinLimit && !g.isMain {
			e.incon = append(e.incon, "goroutine "+g.name+" parked: "+strconv.Itoa(spinLimit)+" steps without blocking (busy loop)")
			e.block(g, "parked (busy loop)")
			continue
		}
		e.steps++
		if e.steps > e.cfg.MaxSteps {
			panic(unsupported{fmt.Sprintf("step limit %d exceeded (unwinding bound)", e.cfg.MaxSteps)})
		}
		e.step(g)
		if e.mainG.status == GDone {
			return
		}
	}
}

func (e *Exec) runnable() []*G {
	var rs []*G
	for _, g := range e.gs {
		if g.status == GRunnable {
			if e.onlyFilter != "" && !gMatches(g, e.onlyFilter) {
				continue
			}
			rs = append(rs, g)
		}
	}
	if len(rs) == 0 && e.onlyFilter != "" {
		// nothing matching can run any more: the restriction ends and its caller continues
		e.onlyFilter = ""
		if e.onlyCaller != nil && e.onlyCaller.status == GQuiesce {
			e.onlyCaller.status = GRunnable
			c := e.onlyCaller
			e.onlyCaller = nil
			return []*G{c}
		}
		return e.runnable()
	}
	return rs
}

func gMatches(g *G, sub string) bool {
	for _, alt := range strings.Split(sub, "|") {
		for _, fr := range g.frames {
			if strings.Contains(fr.fn.String(), alt) {
				return true
			}
		}
	}
	return false
}

func (e *Exec) schedule() *G {
	rs := e.runnable()
	if len(rs) == 0 {
		// a quiescing goroutine resumes when nothing else can run; when several are quiescing
		// (a hook that quiesces inside another goroutine), main is the last to resume
		var q *G
		for _, g := range e.gs {
			if g.status == GQuiesce && (q == nil || q.isMain) {
				q = g
			}
		}
		if q != nil {
			q.status = GRunnable
			return q
		}
		if e.mainG.status == GBlocked {
			e.findKey = "deadlock@" + e.harness
			e.event("deadlock", "main goroutine blocked forever: "+e.mainG.waitDesc+e.blockedSummary())
			panic(pathEnd{"deadlock"})
		}
		return nil
	}
	if len(rs) == 1 || !e.schedFork {
		return rs[0]
	}
	if e.schedChoiceCap > 0 {
		// verifSchedFirst: only the first few "who runs next" choices are explored
		if e.schedChoices >= e.schedChoiceCap {
			return rs[0]
		}
		e.schedChoices++
	}
	k := e.pick(len(rs), "sched")
	return rs[k]
}

func (e *Exec) blockedSummary() string {
	var sb strings.Builder
	for _, g := range e.gs {
		if g.status == GBlocked {
			fmt.Fprintf(&sb, "; g%d(%s) blocked on %s", g.id, g.name, g.waitDesc)
		}
	}
	return sb.String()
}

// preemption point (only in schedule-forking mode): lets another runnable goroutine go first.
func (e *Exec) maybePreempt(g *G) bool {
	if !e.schedFork || e.preemptions >= e.maxPreempt {
		return false
	}
	rs := e.runnable()
	if len(rs) <= 1 {
		return false
	}
	k := e.pick(len(rs), "preempt")
	if rs[k] != g {
		e.preemptions++
		e.cur = rs[k]
		return true
	}
	return false
}

func (e *Exec) block(g *G, desc string) {
	g.status = GBlocked
	g.waitDesc = desc
	if e.cur == g {
		e.cur = nil
	}
}

func (e *Exec) wake(g *G) {
	if g.status == GBlocked {
		g.status = GRunnable
	}
}

func (e *Exec) raise(g *G, val Value, msg string, runtime bool) {
	where := ""
	if len(g.frames) > 0 {
		f := g.top()
		where = f.fn.String()
		if f.ip < len(f.block.Instrs) {
			if p := f.block.Instrs[f.ip].Pos(); p.IsValid() {
				where += " @ " + e.prog.fset.Position(p).String()
			}
		}
	}
	g.panic = &panicState{val: val, msg: msg, runtime: runtime, where: where}
	if len(g.frames) > 0 {
		g.top().unwinding = true
	}
}

func (e *Exec) runtimePanic(g *G, msg string) {
	// runtime.Error value: model as an opaque error interface
	e.raise(g, IfaceV{T: e.prog.runtimeErrType, V: concStr("runtime error: " + msg)}, "runtime error: "+msg, true)
}

// check emits a Go run-time check: if ok can be false, forks a panicking path.
// Returns true if execution continues normally on this path.
func (e *Exec) check(g *G, ok *Term, msg string) bool {
	if ok.IsTrue() {
		return true
	}
	e.stats.rtChecks++
	if e.branch(ok, "rtcheck:"+msg) {
		return true
	}
	e.runtimePanic(g, msg)
	return false
}

func (e *Exec) popFrame(g *G, result Value) {
	f := g.top()
	g.frames = g.frames[:len(g.frames)-1]
	if f.onReturn != nil {
		f.onReturn(result)
	}
	if len(g.frames) == 0 {
		g.status = GDone
		if e.cur == g {
			e.cur = nil
		}
		e.goExit(g)
		return
	}
	if f.dest != nil {
		g.top().env[f.dest] = result
	}
}

func (e *Exec) goExit(g *G) {
	// release nothing; record final VC for joiners
}

func (e *Exec) step(g *G) {
	f := g.top()
	if f.unwinding {
		if len(f.defers) > 0 {
			d := f.defers[len(f.defers)-1]
			f.defers = f.defers[:len(f.defers)-1]
			e.invokeDeferred(g, f, d)
			return
		}
		if g.panic != nil {
			g.frames = g.frames[:len(g.frames)-1]
			if len(g.frames) == 0 {
				g.status = GDone
				g.crashed = true
				if e.cur == g {
					e.cur = nil
				}
				e.crash(g)
				return
			}
			g.top().unwinding = true
			return
		}
		// recovered
		f.unwinding = false
		if f.fn.Recover != nil {
			f.prev = f.block
			f.block = f.fn.Recover
			f.ip = 0
			return
		}
		res := f.fn.Signature.Results()
		var rv Value
		switch res.Len() {
		case 0:
		case 1:
			rv = e.zero(res.At(0).Type())
		default:
			rv = e.zero(res)
		}
		e.popFrame(g, rv)
		return
	}
	if f.ip >= len(f.block.Instrs) {
		panic("fell off block in " + f.fn.String())
	}
	instr := f.block.Instrs[f.ip]
	e.stats.instrs++
	adv := e.exec(g, f, instr)
	if adv {
		f.ip++
	}
}

func (e *Exec) jump(f *Frame, to *ssa.BasicBlock) {
	f.prev = f.block
	f.block = to
	f.ip = 0
	// evaluate phis atomically
	var idx int = -1
	for i, p := range to.Preds {
		if p == f.prev {
			idx = i
			break
		}
	}
	type pv struct {
		phi *ssa.Phi
		v   Value
	}
	var vals []pv
	for _, in := range to.Instrs {
		phi, ok := in.(*ssa.Phi)
		if !ok {
			break
		}
		vals = append(vals, pv{phi, e.get(f, phi.Edges[idx])})
		f.ip++
	}
	for _, x := range vals {
		f.env[x.phi] = x.v
	}
}

func (e *Exec) invokeDeferred(g *G, owner *Frame, d *deferred) {
	e.callValue(g, d.fn, d.args, nil, func(fr *Frame) {
		fr.isDefer = true
		fr.owner = owner
	}, owner, d)
}

// callValue calls fn with args. dest receives the result in the current top frame.
// Returns false if the call blocked (intrinsic wants a retry).
func (e *Exec) callValue(g *G, fn Value, args []Value, dest ssa.Value, setup func(*Frame), owner *Frame, d *deferred) bool {
	fv, _ := fn.(*FuncV)
	if fv == nil {
		e.runtimePanic(g, "invalid memory address or nil pointer dereference (nil func call)")
		return true
	}
	if len(fv.Bound) > 0 {
		args = append(append([]Value{}, fv.Bound...), args...)
	}
	name := fv.Intr
	if name == "" {
		name = fv.Fn.String()
		if fv.Fn.Origin() != nil {
			name = fv.Fn.Origin().String()
		}
	}
	if h, ok := e.prog.intrinsic(name, fv.Fn); ok {
		caller := g.top()
		res := h(e, g, args)
		switch r := res.(type) {
		case blockedResult:
			if d != nil {
				owner.defers = append(owner.defers, d)
			}
			return false
		case quiesceRetry:
			return false
		case tailCall:
			ta := r.args
			if ta == nil {
				ta = nil
			}
			return e.callValue(g, r.fn, ta, dest, setup, owner, d)
		case panicked:
			return true
		default:
			if dest != nil {
				caller.env[dest] = res
			}
			return true
		}
	}
	if fv.Fn == nil {
		panic(unsupported{"no model for " + name})
	}
	fr := e.pushFrame(g, fv.Fn, args, fv.Env)
	fr.dest = dest
	if setup != nil {
		setup(fr)
	}
	return true
}

type blockedResult struct{}
type panicked struct{}
type tailCall struct {
	fn   Value
	args []Value
}

func (e *Exec) crash(g *G) {
	ps := g.panic
	e.findKey = "crash@" + ps.where
	e.event("crash", fmt.Sprintf("unrecovered panic in goroutine %d (%s): %s at %s", g.id, g.name, ps.msg, ps.where))
	// A crash terminates the process: end the path.
	panic(pathEnd{"crash"})
}

// resolve call target
func (e *Exec) prepareCall(g *G, f *Frame, c *ssa.CallCommon) (fn Value, args []Value, ok bool) {
	if c.IsInvoke() {
		recv := e.get(f, c.Value)
		iv, isI := recv.(IfaceV)
		if !isI {
			panic(fmt.Sprintf("invoke on non-interface %T", recv))
		}
		if iv.T == nil {
			e.runtimePanic(g, "invalid memory address or nil pointer dereference (method call on nil interface "+c.Method.Name()+")")
			return nil, nil, false
		}
		m := e.prog.lookupMethod(iv.T, c.Method)
		if m == nil {
			panic(unsupported{fmt.Sprintf("method %s not found on %s", c.Method.Name(), iv.T)})
		}
		args = append(args, iv.V)
		for _, a := range c.Args {
			args = append(args, e.get(f, a))
		}
		return &FuncV{Fn: m}, args, true
	}
	fn = e.get(f, c.Value)
	for _, a := range c.Args {
		args = append(args, e.get(f, a))
	}
	return fn, args, true
}

func (e *Exec) exec(g *G, f *Frame, instr ssa.Instruction) bool {
	tc := e.tc
	switch in := instr.(type) {
	case *ssa.DebugRef:
		return true
	case *ssa.Alloc:
		t := in.Type().(*types.Pointer).Elem()
		c := e.newCell(t)
		c.Name = in.Comment
		f.env[in] = PtrV{C: c}
		return true
	case *ssa.Phi:
		panic("phi executed directly")
	case *ssa.Jump:
		e.jump(f, f.block.Succs[0])
		return false
	case *ssa.If:
		c := e.get(f, in.Cond).(*Term)
		if !c.IsConst() && e.trySelect(g, f, in, c) {
			return false
		}
		if e.branch(c, "if") {
			e.jump(f, f.block.Succs[0])
		} else {
			e.jump(f, f.block.Succs[1])
		}
		return false
	case *ssa.Return:
		var rv Value
		switch len(in.Results) {
		case 0:
		case 1:
			rv = e.get(f, in.Results[0])
		default:
			tv := make(TupleV, len(in.Results))
			for i, r := range in.Results {
				tv[i] = e.get(f, r)
			}
			rv = tv
		}
		e.popFrame(g, rv)
		return false
	case *ssa.RunDefers:
		if len(f.defers) > 0 {
			d := f.defers[len(f.defers)-1]
			f.defers = f.defers[:len(f.defers)-1]
			e.invokeDeferred(g, f, d)
			return false
		}
		return true
	case *ssa.Panic:
		v := e.get(f, in.X)
		e.raise(g, v, "panic: "+e.describe(v), false)
		return false
	case *ssa.Defer:
		fn, args, ok := e.prepareCall(g, f, &in.Call)
		if !ok {
			return false
		}
		f.defers = append(f.defers, &deferred{fn: fn, args: args})
		return true
	case *ssa.Go:
		fn, args, ok := e.prepareCall(g, f, &in.Call)
		if !ok {
			return false
		}
		e.spawn(g, fn, args)
		return true
	case *ssa.Call:
		if e.schedFork && e.isSyncCall(&in.Call) && e.syncPoint(g, in) {
			return false
		}
		fn, args, ok := e.prepareCall(g, f, &in.Call)
		if !ok {
			return false
		}
		nf := len(g.frames)
		if !e.callValue(g, fn, args, in, nil, nil, nil) {
			return false // blocked; retry
		}
		if g.panic != nil && f.unwinding {
			return false
		}
		if len(g.frames) > nf {
			// callee frame pushed; advance caller now so return continues after the call
			f.ip++
			return false
		}
		if len(g.frames) < nf || g.status == GDone {
			return false
		}
		return true
	case *ssa.UnOp:
		return e.execUnOp(g, f, in)
	case *ssa.BinOp:
		x := e.get(f, in.X)
		y := e.get(f, in.Y)
		r, ok := e.binop(g, in.Op, x, y, in.X.Type(), in.Y.Type())
		if !ok {
			return false
		}
		f.env[in] = r
		return true
	case *ssa.ChangeType:
		f.env[in] = e.get(f, in.X)
		return true
	case *ssa.ChangeInterface:
		f.env[in] = e.get(f, in.X)
		return true
	case *ssa.MakeInterface:
		f.env[in] = IfaceV{T: in.X.Type(), V: e.get(f, in.X)}
		return true
	case *ssa.Convert:
		f.env[in] = e.convert(e.get(f, in.X), in.X.Type(), in.Type())
		return true
	case *ssa.SliceToArrayPointer:
		s := e.get(f, in.X).(SliceV)
		n := in.Type().(*types.Pointer).Elem().Underlying().(*types.Array).Len()
		if !e.check(g, tc.Cmp(OULE, tc.Const(64, uint64(n)), s.Len), "slice to array pointer: length too short") {
			return false
		}
		// modelled as a pointer to a private copy of the range (sound for the read-only uses in
		// netip/net; a store through it would not alias the slice and is not expected)
		at := in.Type().(*types.Pointer).Elem()
		c := e.newCell(at)
		if c.SA == nil {
			panic(unsupported{"SliceToArrayPointer of non-scalar array"})
		}
		if s.A != nil {
			e.arrCopy(c.SA, tc.Const(64, 0), s.A, s.Off, tc.Const(64, uint64(n)))
		}
		f.env[in] = PtrV{C: c}
		return true
	case *ssa.MakeClosure:
		fn := in.Fn.(*ssa.Function)
		env := make([]Value, len(in.Bindings))
		for i, b := range in.Bindings {
			env[i] = e.get(f, b)
		}
		f.env[in] = &FuncV{Fn: fn, Env: env}
		return true
	case *ssa.MakeSlice:
		ln := e.get(f, in.Len).(*Term)
		cp := e.get(f, in.Cap).(*Term)
		ln = e.to64(ln, in.Len.Type())
		cp = e.to64(cp, in.Cap.Type())
		if !e.check(g, tc.And(tc.Cmp(OSLE, tc.Const(64, 0), ln), tc.Cmp(OSLE, ln, cp)), "makeslice: len out of range") {
			return false
		}
		n := int(e.concretize(cp, "makeslice cap"))
		if n > 1<<24 {
			panic(unsupported{"makeslice too large"})
		}
		et := in.Type().Underlying().(*types.Slice).Elem()
		f.env[in] = e.makeSlice(et, ln, n)
		return true
	case *ssa.MakeMap:
		mt := in.Type().Underlying().(*types.Map)
		e.nextID++
		f.env[in] = &MapV{KT: mt.Key(), VT: mt.Elem(), ID: e.nextID}
		return true
	case *ssa.MakeChan:
		sz := e.get(f, in.Size).(*Term)
		n := int(e.concretize(e.to64(sz, in.Size.Type()), "makechan size"))
		e.nextID++
		f.env[in] = &ChanV{ID: e.nextID, Cap: n, Elem: in.Type().Underlying().(*types.Chan).Elem(), vc: VC{}}
		return true
	case *ssa.FieldAddr:
		p := e.get(f, in.X).(PtrV)
		if p.IsNil() {
			e.runtimePanic(g, "invalid memory address or nil pointer dereference")
			return false
		}
		if p.C == nil || p.C.F == nil {
			panic(fmt.Sprintf("FieldAddr on non-struct cell in %s", f.fn))
		}
		f.env[in] = PtrV{C: p.C.F[in.Field]}
		return true
	case *ssa.Field:
		s := e.get(f, in.X).(*StructV)
		f.env[in] = s.F[in.Field]
		return true
	case *ssa.IndexAddr:
		return e.execIndexAddr(g, f, in)
	case *ssa.Index:
		return e.execIndex(g, f, in)
	case *ssa.Slice:
		return e.execSlice(g, f, in)
	case *ssa.Lookup:
		return e.execLookup(g, f, in)
	case *ssa.MapUpdate:
		m := e.get(f, in.Map).(*MapV)
		if m == nil {
			e.runtimePanic(g, "assignment to entry in nil map")
			return false
		}
		e.mapUpdate(m, e.get(f, in.Key), e.get(f, in.Value))
		return true
	case *ssa.Extract:
		t := e.get(f, in.Tuple).(TupleV)
		f.env[in] = t[in.Index]
		return true
	case *ssa.TypeAssert:
		return e.execTypeAssert(g, f, in)
	case *ssa.Range:
		x := e.get(f, in.X)
		switch xv := x.(type) {
		case *MapV:
			it := &rangeIter{}
			if xv != nil {
				if xv.Sym {
					panic(unsupported{"range over symbolic map"})
				}
				e.accessMap(xv, false)
				it.entries = append(it.entries, xv.E...)
			}
			f.env[in] = it
		case *StrV:
			panic(unsupported{"range over string"})
		default:
			panic(unsupported{fmt.Sprintf("range over %T", x)})
		}
		return true
	case *ssa.Next:
		it := e.get(f, in.Iter).(*rangeIter)
		if it.pos < len(it.entries) {
			en := it.entries[it.pos]
			it.pos++
			f.env[in] = TupleV{tc.Bool(true), en.K, en.V}
		} else {
			f.env[in] = TupleV{tc.Bool(false), nil, nil}
		}
		return true
	case *ssa.Send:
		return e.execSend(g, f, in)
	case *ssa.Select:
		return e.execSelect(g, f, in)
	case *ssa.Store:
		p := e.get(f, in.Addr).(PtrV)
		if p.IsNil() {
			e.runtimePanic(g, "invalid memory address or nil pointer dereference (store)")
			return false
		}
		e.storePtr(p, e.get(f, in.Val))
		return true
	}
	panic(unsupported{fmt.Sprintf("SSA instruction %T", instr)})
}

type syncKey struct {
	g  int
	in ssa.Instruction
}

type rangeIter struct {
	entries []*mapEntry
	pos     int
}

func (e *Exec) spawn(parent *G, fn Value, args []Value) {
	fv := fn.(*FuncV)
	name := fv.Intr
	if fv.Fn != nil {
		name = fv.Fn.String()
	}
	ng := e.newG(name)
	// happens-before: go statement
	ng.vc = parent.vc.clone()
	ng.vc[ng.id] = 1
	parent.vc.tick(parent.id)
	if fv.Fn == nil || e.prog.hasIntrinsic(name, fv.Fn) {
		// goroutine running an intrinsic: wrap
		ng.frames = nil
		// run intrinsic immediately in the context of new goroutine
		if len(fv.Bound) > 0 {
			args = append(append([]Value{}, fv.Bound...), args...)
		}
		h, _ := e.prog.intrinsic(name, fv.Fn)
		// needs a frame for env; simplest: execute synchronously
		_ = h(e, parent, args)
		ng.status = GDone
		return
	}
	e.pushFrame(ng, fv.Fn, append(append([]Value{}, fv.Bound...), args...), fv.Env)
	e.stats.goroutines++
}

func (e *Exec) to64(t *Term, typ types.Type) *Term {
	w, signed, _ := intWidth(typ)
	if w == 64 || t.S.W == 64 {
		return t
	}
	if signed {
		return e.tc.SExt(t, 64)
	}
	return e.tc.ZExt(t, 64)
}

func (e *Exec) makeSlice(et types.Type, ln *Term, cp int) SliceV {
	tc := e.tc
	if ew, ok := isScalarElem(et); ok {
		a := e.newArr(ew, cp)
		return SliceV{A: a, Off: tc.Const(64, 0), Len: ln, Cap: tc.Const(64, uint64(cp)), Elem: et}
	}
	ga := &GenArr{Elem: et, E: make([]*Cell, cp)}
	for i := range ga.E {
		ga.E[i] = e.newCell(et)
	}
	return SliceV{G: ga, Off: tc.Const(64, 0), Len: ln, Cap: tc.Const(64, uint64(cp)), Elem: et}
}

func (e *Exec) execUnOp(g *G, f *Frame, in *ssa.UnOp) bool {
	tc := e.tc
	x := e.get(f, in.X)
	switch in.Op {
	case token.MUL:
		p := x.(PtrV)
		if p.IsNil() {
			e.runtimePanic(g, "invalid memory address or nil pointer dereference")
			return false
		}
		f.env[in] = e.loadPtr(p)
		return true
	case token.NOT:
		f.env[in] = tc.Not(x.(*Term))
		return true
	case token.SUB:
		if fv, ok := x.(*FloatV); ok {
			f.env[in] = &FloatV{Known: fv.Known, F: -fv.F, Op: "neg", A: fv}
			return true
		}
		f.env[in] = tc.Neg(x.(*Term))
		return true
	case token.XOR:
		f.env[in] = tc.BNot(x.(*Term))
		return true
	case token.ARROW:
		return e.execRecv(g, f, in, x.(*ChanV))
	}
	panic(unsupported{"unop " + in.Op.String()})
}

func (e *Exec) execIndexAddr(g *G, f *Frame, in *ssa.IndexAddr) bool {
	tc := e.tc
	x := e.get(f, in.X)
	idx := e.to64(e.get(f, in.Index).(*Term), in.Index.Type())
	switch xv := x.(type) {
	case SliceV:
		if !e.check(g, tc.Cmp(OULT, idx, xv.Len), "index out of range") {
			return false
		}
		if xv.A != nil {
			f.env[in] = PtrV{A: xv.A, I: tc.Bin(OAdd, xv.Off, idx)}
			return true
		}
		if xv.G == nil {
			panic("index of nil slice passed bounds check")
		}
		k := int(e.concretize(tc.Bin(OAdd, xv.Off, idx), "generic slice index"))
		f.env[in] = PtrV{C: xv.G.E[k]}
		return true
	case PtrV: // pointer to array
		if xv.IsNil() {
			e.runtimePanic(g, "invalid memory address or nil pointer dereference")
			return false
		}
		c := xv.C
		if c.SA != nil {
			if !e.check(g, tc.Cmp(OULT, idx, tc.Const(64, uint64(c.SA.N))), "index out of range") {
				return false
			}
			f.env[in] = PtrV{A: c.SA, I: idx}
			return true
		}
		if !e.check(g, tc.Cmp(OULT, idx, tc.Const(64, uint64(len(c.GA.E)))), "index out of range") {
			return false
		}
		k := int(e.concretize(idx, "array index"))
		f.env[in] = PtrV{C: c.GA.E[k]}
		return true
	}
	panic(fmt.Sprintf("IndexAddr on %T", x))
}

func (e *Exec) execIndex(g *G, f *Frame, in *ssa.Index) bool {
	tc := e.tc
	x := e.get(f, in.X)
	idx := e.to64(e.get(f, in.Index).(*Term), in.Index.Type())
	switch xv := x.(type) {
	case *ArrayV:
		if xv.SA != nil {
			if !e.check(g, tc.Cmp(OULT, idx, tc.Const(64, uint64(xv.SA.N))), "index out of range") {
				return false
			}
			f.env[in] = e.arrRead(xv.SA, idx)
			return true
		}
		if !e.check(g, tc.Cmp(OULT, idx, tc.Const(64, uint64(len(xv.E)))), "index out of range") {
			return false
		}
		k := int(e.concretize(idx, "array index"))
		f.env[in] = xv.E[k]
		return true
	case *StrV:
		ln := e.strLen(xv)
		if !e.check(g, tc.Cmp(OULT, idx, ln), "string index out of range") {
			return false
		}
		f.env[in] = e.strIndex(xv, idx)
		return true
	}
	panic(fmt.Sprintf("Index on %T", x))
}

func (e *Exec) execSlice(g *G, f *Frame, in *ssa.Slice) bool {
	tc := e.tc
	x := e.get(f, in.X)
	var lo, hi, mx *Term
	if in.Low != nil {
		lo = e.to64(e.get(f, in.Low).(*Term), in.Low.Type())
	}
	if in.High != nil {
		hi = e.to64(e.get(f, in.High).(*Term), in.High.Type())
	}
	if in.Max != nil {
		mx = e.to64(e.get(f, in.Max).(*Term), in.Max.Type())
	}
	zero := tc.Const(64, 0)
	if lo == nil {
		lo = zero
	}
	switch xv := x.(type) {
	case SliceV:
		if xv.Len == nil { // the zero SliceV (nil slice)
			xv.Len, xv.Cap, xv.Off = zero, zero, zero
		}
		if hi == nil {
			hi = xv.Len
		}
		capT := xv.Cap
		if mx != nil {
			if !e.check(g, tc.And(tc.Cmp(OULE, mx, xv.Cap), tc.Cmp(OULE, hi, mx)), "slice bounds out of range (max)") {
				return false
			}
			capT = mx
		}
		if !e.check(g, tc.Cmp(OULE, hi, capT), fmt.Sprintf("slice bounds out of range [:%s] with capacity", e.showTerm(hi))) {
			return false
		}
		if !e.check(g, tc.Cmp(OULE, lo, hi), fmt.Sprintf("slice bounds out of range [%s:%s]", e.showTerm(lo), e.showTerm(hi))) {
			return false
		}
		r := SliceV{A: xv.A, G: xv.G, Elem: xv.Elem, Off: tc.Bin(OAdd, xv.Off, lo), Len: tc.Bin(OSub, hi, lo), Cap: tc.Bin(OSub, capT, lo)}
		if xv.IsNil() {
			r.Off = zero
		}
		f.env[in] = r
		return true
	case PtrV: // *array
		if xv.IsNil() {
			e.runtimePanic(g, "invalid memory address or nil pointer dereference (slice of nil array pointer)")
			return false
		}
		c := xv.C
		var n int
		var et types.Type = c.T.Underlying().(*types.Array).Elem()
		if c.SA != nil {
			n = c.SA.N
		} else {
			n = len(c.GA.E)
		}
		nT := tc.Const(64, uint64(n))
		if hi == nil {
			hi = nT
		}
		capT := nT
		if mx != nil {
			if !e.check(g, tc.And(tc.Cmp(OULE, mx, nT), tc.Cmp(OULE, hi, mx)), "slice bounds out of range (max)") {
				return false
			}
			capT = mx
		}
		if !e.check(g, tc.Cmp(OULE, hi, capT), "slice bounds out of range [:hi] of array") {
			return false
		}
		if !e.check(g, tc.Cmp(OULE, lo, hi), "slice bounds out of range [lo:hi] of array") {
			return false
		}
		f.env[in] = SliceV{A: c.SA, G: c.GA, Elem: et, Off: lo, Len: tc.Bin(OSub, hi, lo), Cap: tc.Bin(OSub, capT, lo)}
		return true
	case *StrV:
		ln := e.strLen(xv)
		if hi == nil {
			hi = ln
		}
		if !e.check(g, tc.And(tc.Cmp(OULE, hi, ln), tc.Cmp(OULE, lo, hi)), "string slice bounds out of range") {
			return false
		}
		f.env[in] = e.strSlice(xv, lo, hi)
		return true
	}
	panic(fmt.Sprintf("Slice on %T", x))
}

func (e *Exec) showTerm(t *Term) string {
	if t.IsConst() {
		return fmt.Sprint(t.SVal())
	}
	return "sym"
}

func (e *Exec) execTypeAssert(g *G, f *Frame, in *ssa.TypeAssert) bool {
	x := e.get(f, in.X)
	iv, ok := x.(IfaceV)
	if !ok {
		panic(fmt.Sprintf("typeassert on %T", x))
	}
	var holds bool
	var res Value
	if iv.T != nil {
		if types.IsInterface(in.AssertedType) {
			it := in.AssertedType.Underlying().(*types.Interface)
			holds = e.prog.implements(iv.T, it)
			res = iv
		} else {
			holds = types.Identical(iv.T, in.AssertedType)
			res = iv.V
		}
	}
	if in.CommaOk {
		if !holds {
			res = e.zero(in.AssertedType)
		}
		f.env[in] = TupleV{res, e.tc.Bool(holds)}
		return true
	}
	if !holds {
		dyn := "nil"
		if iv.T != nil {
			dyn = iv.T.String()
		}
		e.runtimePanic(g, fmt.Sprintf("interface conversion: interface is %s, not %s", dyn, in.AssertedType))
		return false
	}
	f.env[in] = res
	return true
}

func (e *Exec) describe(v Value) string {
	switch x := v.(type) {
	case IfaceV:
		if x.T == nil {
			return "nil"
		}
		return x.T.String() + ":" + e.describe(x.V)
	case *StrV:
		if x.Kind == SConc {
			return x.S
		}
		return "<string>"
	case *Term:
		if x.IsConst() {
			return fmt.Sprint(x.Val)
		}
		return "<sym>"
	}
	return fmt.Sprintf("<%T>", v)
}

// isSyncCall reports whether a call is a synchronisation operation (a preemption point).
func (e *Exec) isSyncCall(c *ssa.CallCommon) bool {
	if c.IsInvoke() {
		switch c.Method.Name() {
		case "Close", "ReadFrom", "AcceptStream", "Accept", "Acquire", "ListenStream", "ListenPacket":
			return true
		}
		return false
	}
	callee := c.StaticCallee()
	if callee == nil {
		return false
	}
	switch callee.Name() {
	case "AcceptTCP", "verifDialTCP", "verifYield":
		return true
	}
	pkg := callee.Pkg
	if pkg == nil && callee.Origin() != nil {
		pkg = callee.Origin().Pkg // instantiations of generic methods (atomic.Pointer[T])
	}
	if pkg != nil {
		switch pkg.Pkg.Path() {
		case "sync", "sync/atomic":
			return true
		}
	}
	return false
}

// pureInstr reports whether an instruction is total and side-effect free (safe to speculate).
func pureInstr(in ssa.Instruction) bool {
	switch x := in.(type) {
	case *ssa.BinOp:
		switch x.Op {
		case token.QUO, token.REM, token.SHL, token.SHR:
			return false
		}
		if _, _, ok := intWidth(x.X.Type()); ok {
			return true
		}
		return isBool(x.X.Type())
	case *ssa.UnOp:
		return x.Op == token.NOT || x.Op == token.SUB || x.Op == token.XOR
	case *ssa.Convert:
		_, _, a := intWidth(x.X.Type())
		_, _, b := intWidth(x.Type())
		return a && b
	case *ssa.ChangeType, *ssa.Extract, *ssa.Field, *ssa.DebugRef:
		return true
	}
	return false
}

// trySelect performs if-conversion: when both arms of a symbolic If are pure straight-line
// blocks meeting at a common join, the phis become ite terms and no path fork happens.
func (e *Exec) trySelect(g *G, f *Frame, in *ssa.If, c *Term) bool {
	b := f.block
	T, F := b.Succs[0], b.Succs[1]
	arm := func(x *ssa.BasicBlock) (join *ssa.BasicBlock, ok bool) {
		if len(x.Preds) != 1 || len(x.Succs) != 1 || len(x.Instrs) > 12 {
			return nil, false
		}
		for _, i := range x.Instrs[:len(x.Instrs)-1] {
			if !pureInstr(i) {
				return nil, false
			}
		}
		if _, isJ := x.Instrs[len(x.Instrs)-1].(*ssa.Jump); !isJ {
			return nil, false
		}
		return x.Succs[0], true
	}
	var J *ssa.BasicBlock
	var tArm, fArm *ssa.BasicBlock // nil = direct edge from b
	jt, okT := arm(T)
	jf, okF := arm(F)
	switch {
	case okT && okF && jt == jf:
		J, tArm, fArm = jt, T, F
	case okT && jt == F:
		J, tArm = F, T
	case okF && jf == T:
		J, fArm = T, F
	default:
		return false
	}
	// the join must see exactly these edges once each
	predIdx := func(p *ssa.BasicBlock) int {
		idx := -1
		for i, q := range J.Preds {
			if q == p {
				if idx >= 0 {
					return -2
				}
				idx = i
			}
		}
		return idx
	}
	tp, fp := b, b
	if tArm != nil {
		tp = tArm
	}
	if fArm != nil {
		fp = fArm
	}
	ti, fi := predIdx(tp), predIdx(fp)
	if ti < 0 || fi < 0 || ti == fi {
		return false
	}
	ok := true
	func() {
		defer func() {
			if r := recover(); r != nil {
				if _, isU := r.(unsupported); isU {
					ok = false
					return
				}
				panic(r)
			}
		}()
		for _, a := range []*ssa.BasicBlock{tArm, fArm} {
			if a == nil {
				continue
			}
			for _, i := range a.Instrs[:len(a.Instrs)-1] {
				if _, isD := i.(*ssa.DebugRef); isD {
					continue
				}
				saveB, saveIP := f.block, f.ip
				e.exec(g, f, i)
				f.block, f.ip = saveB, saveIP
				if g.panic != nil {
					panic("speculated instruction panicked")
				}
			}
		}
	}()
	if !ok {
		return false
	}
	type pv struct {
		phi *ssa.Phi
		v   Value
	}
	var vals []pv
	nphi := 0
	for _, i := range J.Instrs {
		phi, isPhi := i.(*ssa.Phi)
		if !isPhi {
			break
		}
		nphi++
		vt, vf := e.get(f, phi.Edges[ti]), e.get(f, phi.Edges[fi])
		tt, ok1 := vt.(*Term)
		tf, ok2 := vf.(*Term)
		if ok1 && ok2 && tt.S == tf.S {
			vals = append(vals, pv{phi, e.tc.Ite(c, tt, tf)})
			continue
		}
		return false
	}
	e.stats.selects++
	for _, x := range vals {
		f.env[x.phi] = x.v
	}
	f.prev = tp
	f.block = J
	f.ip = nphi
	return true
}

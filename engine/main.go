package main

// gosmt: SSA -> SMT-LIB2 bounded symbolic checker for outline-ss-server.
//
//   gosmt check <PROPERTY> [--tier quick|thorough]
//   gosmt run <harness> [...]          (debugging)
//   gosmt replay <path.json>

import (
	"encoding/json"
	"flag"
	"fmt"
	"os"
	"path/filepath"
	"regexp"
	"runtime"
	"runtime/debug"
	"runtime/pprof"
	"sort"
	"strconv"
	"strings"
	"time"
)

var (
	verifDir = "/verif"
	repoDir  = "/repo"
)

func envOr(k, d string) string {
	if v := os.Getenv(k); v != "" {
		return v
	}
	return d
}

func main() {
	debug.SetGCPercent(800)
	// a soft heap limit: the collector runs rarely while the heap is small and keeps it below
	// the limit otherwise (VERIF_MEMLIMIT_GB overrides the default of 5 GiB)
	memGB := int64(5)
	if v, err := strconv.Atoi(os.Getenv("VERIF_MEMLIMIT_GB")); err == nil && v > 0 {
		memGB = int64(v)
	}
	debug.SetMemoryLimit(memGB << 30)
	os.Setenv("GOFLAGS", "-mod=mod")
	os.Setenv("GOPROXY", "off")
	os.Setenv("GOSUMDB", "off")
	os.Setenv("GOTOOLCHAIN", "local")
	verifDir = envOr("VERIF_DIR", verifDir)
	repoDir = envOr("VERIF_REPO", repoDir)
	if len(os.Args) < 2 {
		fmt.Fprintln(os.Stderr, "usage: gosmt check|run|replay ...")
		os.Exit(2)
	}
	switch os.Args[1] {
	case "check":
		os.Exit(cmdCheck(os.Args[2:]))
	case "run":
		os.Exit(cmdRun(os.Args[2:]))
	case "replay":
		os.Exit(cmdReplay(os.Args[2:]))
	case "selftest":
		prog, err := loadAll()
		if err != nil {
			fmt.Println("load error:", err)
			os.Exit(2)
		}
		n, bad := runSelftest(prog)
		fmt.Printf("selftest: %d records compared, %d harnesses disagree\n", n, len(bad))
		for _, b := range bad {
			fmt.Println("  MISMATCH", b)
		}
		if len(bad) > 0 {
			os.Exit(1)
		}
	case "list":
		prog, err := loadAll()
		if err != nil {
			fmt.Println("load error:", err)
			os.Exit(2)
		}
		var ns []string
		for n := range prog.harness {
			ns = append(ns, n)
		}
		sort.Strings(ns)
		for _, n := range ns {
			fmt.Println(n)
		}
	default:
		fmt.Fprintln(os.Stderr, "unknown command", os.Args[1])
		os.Exit(2)
	}
}

func tierNum(t string) int {
	if t == "thorough" {
		return 1
	}
	return 0
}

var curTier = 0

func baseConfig(tier string) *Config {
	cfg := &Config{
		MaxSteps:  4_000_000,
		MaxDepth:  1500,
		MaxPaths:  60_000,
		TimeoutMs: 20_000,
		Workers:   runtime.NumCPU(),
		SolverBin: envOr("VERIF_SOLVER", "z3-new"),
		// wall-clock budget per harness: exceeding it truncates the exploration (inconclusive)
		WallBudget: 4 * time.Minute,
	}
	if tier == "thorough" {
		cfg.MaxSteps = 20_000_000
		cfg.MaxPaths = 1_500_000
		cfg.TimeoutMs = 120_000
		cfg.WallBudget = 25 * time.Minute
	}
	if v := os.Getenv("VERIF_WORKERS"); v != "" {
		if n, err := strconv.Atoi(v); err == nil && n > 0 {
			cfg.Workers = n
		}
	}
	return cfg
}

func loadAll() (*Program, error) {
	stage, err := stageHarness()
	if err != nil {
		return nil, err
	}
	defer os.RemoveAll(stage)
	return loadProgram(repoDir, stage)
}

func cmdRun(args []string) int {
	fs := flag.NewFlagSet("run", flag.ExitOnError)
	tier := fs.String("tier", "quick", "")
	keep := fs.Bool("smt", false, "keep SMT transcript / panic on engine errors")
	workers := fs.Int("j", 0, "")
	maxPaths := fs.Int("paths", 0, "")
	fs.Parse(args)
	curTier = tierNum(*tier)
	prog, err := loadAll()
	if err != nil {
		fmt.Println("load error:", err)
		return 2
	}
	if pf := os.Getenv("VERIF_PROFILE"); pf != "" {
		f, _ := os.Create(pf)
		pprof.StartCPUProfile(f)
		defer pprof.StopCPUProfile()
	}
	cfg := baseConfig(*tier)
	cfg.KeepSMT = *keep
	if *workers > 0 {
		cfg.Workers = *workers
	}
	if *maxPaths > 0 {
		cfg.MaxPaths = *maxPaths
	}
	for _, h := range fs.Args() {
		hr := explore(prog, cfg, h)
		printHarnessResult(hr)
	}
	return 0
}

func printHarnessResult(hr *HarnessResult) {
	fmt.Printf("== %s: paths=%d infeasible=%d instrs=%d queries(sat/unsat/unk)=%d/%d/%d solver=%.2fs wall=%.2fs obligations=%d discharged=%d ends=%v\n",
		hr.Harness, hr.Paths, hr.Infeasible, hr.Stats.instrs, hr.Sat, hr.Unsat, hr.Unknown, hr.SolveTime.Seconds(), hr.Wall.Seconds(), hr.Stats.obligations, hr.Stats.discharged, hr.Ends)
	var rs []string
	for k := range hr.Reached {
		rs = append(rs, k)
	}
	sort.Strings(rs)
	fmt.Println("   reached:", strings.Join(rs, " "))
	for _, s := range hr.Incon {
		fmt.Println("   INCONCLUSIVE:", s)
	}
	for _, f := range hr.Findings {
		fmt.Printf("   FINDING kind=%s label=%s msg=%s\n", f.Kind, f.Label, f.Msg)
		var ks []string
		for _, k := range f.Order {
			if v, ok := f.Inputs[k]; ok {
				ks = append(ks, fmt.Sprintf("%s=%d", k, v))
			}
		}
		if len(ks) > 40 {
			ks = append(ks[:40], "…")
		}
		fmt.Println("      inputs:", strings.Join(ks, " "))
		for _, t := range f.Trace {
			fmt.Println("      trace:", t)
		}
	}
}

// ---------------------------------------------------------------------------

type KnownFinding struct {
	Property    string `json:"property"`
	Status      string `json:"status"` // open | fixed
	Harness     string `json:"harness,omitempty"`
	Kind        string `json:"kind,omitempty"`
	Label       string `json:"label,omitempty"`
	MsgContains string `json:"msg_contains,omitempty"`
	What        string `json:"what"`
	Commit      string `json:"commit,omitempty"`
}

func loadKnown() []KnownFinding {
	var ks []KnownFinding
	data, err := os.ReadFile(filepath.Join(verifDir, "known_findings.json"))
	if err != nil {
		return nil
	}
	var doc struct {
		Findings []KnownFinding `json:"findings"`
	}
	if json.Unmarshal(data, &doc) == nil {
		ks = doc.Findings
	}
	return ks
}

func matchKnown(ks []KnownFinding, prop string, f *Finding) *KnownFinding {
	for i := range ks {
		k := &ks[i]
		if k.Property != prop || k.Status != "open" {
			continue
		}
		if k.Harness != "" && k.Harness != f.Harness {
			continue
		}
		if k.Kind != "" && k.Kind != f.Kind {
			continue
		}
		if k.Label != "" && k.Label != f.Label {
			continue
		}
		if k.MsgContains != "" && !strings.Contains(f.Msg, k.MsgContains) {
			continue
		}
		return k
	}
	return nil
}

var reachRe = regexp.MustCompile(`verifReach\("([^"]+)",`)

// expectedReach scans the harness sources that define harnesses of a property for verifReach
// labels (vacuity witnesses). Labels are checked against the union over the property's harnesses.
func expectedReach(prop string) []string {
	seen := map[string]bool{}
	var out []string
	filepath.Walk(filepath.Join(verifDir, "harness"), func(p string, info os.FileInfo, err error) error {
		if err != nil || info.IsDir() || !strings.HasSuffix(p, ".go") {
			return nil
		}
		data, _ := os.ReadFile(p)
		src := string(data)
		_ = src
		for _, r := range reachRe.FindAllStringSubmatch(src, -1) {
			if strings.HasPrefix(r[1], prop+".") && !seen[r[1]] {
				seen[r[1]] = true
				out = append(out, r[1])
			}
		}
		return nil
	})
	sort.Strings(out)
	return out
}

var labelPropRe = regexp.MustCompile(`^(C[0-9]{2,3})\.`)

func labelProp(label string) string {
	if m := labelPropRe.FindStringSubmatch(label); m != nil {
		return m[1]
	}
	return ""
}

func extraHarnesses(prop string) []string {
	data, err := os.ReadFile(filepath.Join(verifDir, "tools", "checks.json"))
	if err != nil {
		return nil
	}
	var doc map[string]json.RawMessage
	if json.Unmarshal(data, &doc) != nil {
		return nil
	}
	var hs map[string][]string
	if raw, ok := doc["_harnesses"]; ok {
		json.Unmarshal(raw, &hs)
	}
	return hs[prop]
}

func harnessMappedTo(prop, h string) bool {
	for _, n := range extraHarnesses(prop) {
		if n == h {
			return true
		}
	}
	return false
}

func cmdCheck(args []string) int {
	if len(args) < 1 {
		fmt.Fprintln(os.Stderr, "usage: gosmt check <PROPERTY> [--tier quick|thorough]")
		return 2
	}
	prop := args[0]
	fs := flag.NewFlagSet("check", flag.ExitOnError)
	tier := fs.String("tier", envOr("VERIF_TIER", "quick"), "")
	fs.Parse(args[1:])
	if *tier != "thorough" {
		*tier = "quick"
	}
	curTier = tierNum(*tier)
	seed, _ := strconv.Atoi(envOr("VERIF_SEED", "0"))
	start := time.Now()
	ev := newEvidence(prop, *tier, seed)
	prog, err := loadAll()
	if err != nil {
		// a tree that does not build/type-check cannot be judged: inconclusive, never a violation
		fmt.Printf("INCONCLUSIVE property=%s cannot load /repo with harness overlay: %v\n", prop, err)
		ev.Inconclusive = append(ev.Inconclusive, "load error: "+err.Error())
		ev.write(start)
		return 0
	}
	// harness files that do not compile against this tree: their harnesses cannot be run
	var exRel []string
	for rel := range excludedHarness {
		exRel = append(exRel, rel)
	}
	sort.Strings(exRel)
	for _, rel := range exRel {
		// (a staged file holds one declaration: a harness, or a helper whose dependants follow)
		if h := stagedDecl[rel]; strings.HasPrefix(h, "VH_") {
			if strings.HasPrefix(h, "VH_"+prop+"_") || harnessMappedTo(prop, h) {
				msg := fmt.Sprintf("harness %s not run: it does not compile against this tree (%s)", h, excludedHarness[rel])
				fmt.Println("INCONCLUSIVE", msg)
				ev.Inconclusive = append(ev.Inconclusive, msg)
			}
		}
	}
	cfg := baseConfig(*tier)
	var names []string
	for n := range prog.harness {
		if strings.HasPrefix(n, "VH_"+prop+"_") {
			if strings.HasSuffix(n, "_T") && *tier != "thorough" {
				continue
			}
			names = append(names, n)
		}
	}
	// harnesses of other properties that also carry assertions of this one (tools/checks.json)
	for _, n := range extraHarnesses(prop) {
		if _, ok := prog.harness[n]; ok {
			dup := false
			for _, x := range names {
				dup = dup || x == n
			}
			if !dup {
				names = append(names, n)
			}
		}
		if _, ok := prog.harness[n+"_T"]; ok && *tier == "thorough" {
			names = append(names, n+"_T")
		}
	}
	sort.Strings(names)
	if len(names) == 0 {
		fmt.Printf("INCONCLUSIVE property=%s no harness found\n", prop)
		ev.Inconclusive = append(ev.Inconclusive, "no harness")
		ev.write(start)
		return 0
	}
	if *tier == "thorough" {
		n, bad := runSelftest(prog)
		ev.SelftestRecords = n
		for _, b := range bad {
			msg := "translator selftest disagreement (interpreter vs native build): " + b
			fmt.Println("INCONCLUSIVE", msg)
			ev.Inconclusive = append(ev.Inconclusive, msg)
		}
	}
	ev.Bounds = inputDomains(names)
	known := loadKnown()
	expReach := expectedReach(prop)
	reachedAll := map[string]bool{}
	exit := 0
	for _, h := range names {
		hr := explore(prog, cfg, h)
		printHarnessResult(hr)
		ev.addHarness(hr)
		for k := range hr.Reached {
			reachedAll[k] = true
		}
		if !hr.Reached["end:"+h] {
			msg := fmt.Sprintf("vacuity: end of %s not reachable on any path", h)
			fmt.Println("INCONCLUSIVE", msg)
			ev.Inconclusive = append(ev.Inconclusive, msg)
		}
		for i := range hr.Findings {
			f := &hr.Findings[i]
			// an assertion labelled with another property's id belongs to that property's check
			if f.Kind == "assert" && labelProp(f.Label) != "" && labelProp(f.Label) != prop {
				continue
			}
			// an obligation on HOW this version keeps a promise (labelled Cxx.impl.*): another
			// implementation may keep the promise differently, so it can only ever be a hint
			if f.Kind == "assert" && strings.HasPrefix(f.Label, prop+".impl.") {
				msg := fmt.Sprintf("implementation-level observation %s/%s no longer holds (%s): a hint, not a statement of the property", f.Harness, f.Label, f.Msg)
				fmt.Println("INCONCLUSIVE", msg)
				ev.Inconclusive = append(ev.Inconclusive, msg)
				continue
			}
			path, rr := replayFinding(prop, f)
			ev.Replays++
			switch {
			case !rr.Reproduced:
				msg := fmt.Sprintf("candidate %s/%s (%s) did not reproduce natively: %s", f.Harness, f.Label, f.Msg, rr.Note)
				fmt.Println("INCONCLUSIVE", msg)
				ev.Inconclusive = append(ev.Inconclusive, msg)
			default:
				ev.ReplaysConfirmed++
				if k := matchKnown(known, prop, f); k != nil {
					fmt.Printf("KNOWN-FINDING: property=%s %s\n", prop, k.What)
					ev.Known = append(ev.Known, k.What)
				} else {
					fmt.Printf("VIOLATION property=%s replay=%s\n", prop, path)
					fmt.Printf("   %s: %s\n", f.Label, f.Msg)
					ev.Violations++
					exit = 1
				}
			}
		}
	}
	for _, lbl := range expReach {
		if !reachedAll[lbl] && !strings.Contains(lbl, ".T.") {
			msg := fmt.Sprintf("vacuity: reach label %q not satisfiable in any harness of %s", lbl, prop)
			fmt.Println("INCONCLUSIVE", msg)
			ev.Inconclusive = append(ev.Inconclusive, msg)
		} else if !reachedAll[lbl] && *tier == "thorough" {
			msg := fmt.Sprintf("vacuity: reach label %q not satisfiable in any harness of %s", lbl, prop)
			fmt.Println("INCONCLUSIVE", msg)
			ev.Inconclusive = append(ev.Inconclusive, msg)
		}
	}
	ev.write(start)
	return exit
}

// runSelftest pushes concrete inputs through the interpreter and through the native build and
// compares the recorded outputs (translator validation). Returns records compared and the
// harnesses that disagree.
func runSelftest(prog *Program) (int, []string) {
	var names []string
	for n := range prog.harness {
		if strings.HasPrefix(n, "VH_ST_") {
			names = append(names, n)
		}
	}
	sort.Strings(names)
	cfg := baseConfig("quick")
	cfg.Workers = 1
	total := 0
	var bad []string
	for _, h := range names {
		hr := explore(prog, cfg, h)
		if len(hr.Incon) > 0 || hr.Paths != 1 {
			bad = append(bad, fmt.Sprintf("%s: interpreter run not clean (%d paths) %v", h, hr.Paths, hr.Incon))
			continue
		}
		doc := ReplayDoc{Property: "selftest", Harness: h, Kind: "selftest", Inputs: map[string]uint64{}, Tier: curTier}
		dir := filepath.Join(verifDir, "replays", "selftest")
		os.MkdirAll(dir, 0o755)
		path := filepath.Join(dir, h+".json")
		data, _ := json.Marshal(doc)
		os.WriteFile(path, data, 0o644)
		rr := runReplay(&doc, path)
		var native []string
		for _, line := range strings.Split(rr.Output, "\n") {
			if strings.HasPrefix(line, "VERIF-RECORD ") {
				native = append(native, strings.TrimPrefix(line, "VERIF-RECORD "))
			}
		}
		total += len(native)
		if len(native) == 0 || len(native) != len(hr.Records) {
			bad = append(bad, fmt.Sprintf("%s: %d native records vs %d interpreted", h, len(native), len(hr.Records)))
			continue
		}
		for i := range native {
			if native[i] != hr.Records[i] {
				bad = append(bad, fmt.Sprintf("%s: record %d native %q vs interpreted %q", h, i, native[i], hr.Records[i]))
				break
			}
		}
	}
	return total, bad
}

var domainRe = regexp.MustCompile(`verif(Int|Choice|Bytes|U8|U16|U32|U64|I64|Bool|Flag|Sched|Repeat|RandFaultAt)\([^)]*\)`)

// inputDomains lists, per harness run, the verif* input declarations found in its source
// (the stated bounds of the check).
func inputDomains(harnesses []string) []string {
	want := map[string]bool{}
	for _, h := range harnesses {
		want[h] = true
	}
	var out []string
	filepath.Walk(filepath.Join(verifDir, "harness"), func(p string, info os.FileInfo, err error) error {
		if err != nil || info.IsDir() || !strings.HasSuffix(p, ".go") {
			return nil
		}
		data, _ := os.ReadFile(p)
		src := string(data)
		idx := regexp.MustCompile(`(?m)^func ([A-Za-z0-9_]+)\(`).FindAllStringSubmatchIndex(src, -1)
		for i, m := range idx {
			name := src[m[2]:m[3]]
			end := len(src)
			if i+1 < len(idx) {
				end = idx[i+1][0]
			}
			if !want[name] && !strings.HasPrefix(name, "verif") {
				continue
			}
			body := src[m[0]:end]
			seen := map[string]bool{}
			var ds []string
			for _, d := range domainRe.FindAllString(body, -1) {
				if !seen[d] {
					seen[d] = true
					ds = append(ds, d)
				}
			}
			if len(ds) > 0 && want[name] {
				out = append(out, name+": "+strings.Join(ds, "; "))
			}
		}
		return nil
	})
	sort.Strings(out)
	return out
}

package main

// Happens-before (vector clock) data-race detection over the explored schedules.

import (
	"fmt"
	"sort"
)

type VC map[int]int

func (v VC) clone() VC {
	n := make(VC, len(v))
	for k, x := range v {
		n[k] = x
	}
	return n
}

func (v VC) join(o VC) {
	for k, x := range o {
		if x > v[k] {
			v[k] = x
		}
	}
}

func (v VC) tick(id int) { v[id]++ }

type accessRec struct {
	g     int
	clock int
	where string
	locks string
}

type shadow struct {
	w     *accessRec
	reads map[int]*accessRec
	sync  VC // for atomics
}

func (e *Exec) curWhere() string {
	g := e.cur
	if g == nil || len(g.frames) == 0 {
		return "?"
	}
	f := g.top()
	s := f.fn.String()
	if f.ip < len(f.block.Instrs) {
		if p := f.block.Instrs[f.ip].Pos(); p.IsValid() {
			pos := e.prog.fset.Position(p)
			s += fmt.Sprintf(" (%s:%d)", shortPath(pos.Filename), pos.Line)
		}
	}
	return s
}

func (e *Exec) heldNames(g *G) string {
	var ns []string
	for _, h := range g.held {
		ns = append(ns, h.name)
	}
	sort.Strings(ns)
	return fmt.Sprint(ns)
}

func (e *Exec) checkShadow(sh *shadow, what string, write bool) {
	g := e.cur
	if g == nil || g.id < 0 {
		return
	}
	if g.vc[g.id] == 0 {
		g.vc[g.id] = 1
	}
	me := &accessRec{g: g.id, clock: g.vc[g.id], where: e.curWhere(), locks: e.heldNames(g)}
	report := func(o *accessRec, okind string) {
		kind := "read"
		if write {
			kind = "write"
		}
		a, b := fmt.Sprintf("%s at %s holding %s", okind, o.where, o.locks), fmt.Sprintf("%s at %s holding %s", kind, me.where, me.locks)
		key := what + "|" + o.where + "|" + me.where
		if e.races[key] {
			return
		}
		e.races[key] = true
		e.event("race", fmt.Sprintf("data race on %s: %s  vs  %s", what, a, b))
	}
	if sh.w != nil && sh.w.g != g.id && sh.w.clock > g.vc[sh.w.g] {
		report(sh.w, "write")
	}
	if write {
		for _, r := range sh.reads {
			if r.g != g.id && r.clock > g.vc[r.g] {
				report(r, "read")
			}
		}
		sh.w = me
		sh.reads = nil
	} else {
		if sh.reads == nil {
			sh.reads = map[int]*accessRec{}
		}
		sh.reads[g.id] = me
	}
}

func (e *Exec) access(c *Cell, _ interface{}, write bool) {
	if !e.raceOn || e.initing {
		return
	}
	if c.sh == nil {
		c.sh = &shadow{}
	}
	name := c.Name
	if name == "" {
		name = fmt.Sprintf("%s#%d", c.T, c.ID)
	}
	e.checkShadow(c.sh, name, write)
}

func (e *Exec) accessArr(a *Arr, write bool) {
	if !e.raceOn || e.initing || a == nil {
		return
	}
	if a.sh == nil {
		a.sh = &shadow{}
	}
	e.checkShadow(a.sh, fmt.Sprintf("array#%d", a.ID), write)
}

func (e *Exec) accessMap(m *MapV, write bool) {
	if !e.raceOn || e.initing || m == nil {
		return
	}
	if m.sh == nil {
		m.sh = &shadow{}
	}
	e.checkShadow(m.sh, fmt.Sprintf("map#%d(%s)", m.ID, m.KT), write)
}

func (e *Exec) atomicSync(g *G, p PtrV) {
	if p.C == nil {
		return
	}
	if p.C.sh == nil {
		p.C.sh = &shadow{}
	}
	sh := p.C.sh
	if sh.sync == nil {
		sh.sync = VC{}
	}
	g.vc.join(sh.sync)
	sh.sync = g.vc.clone()
	g.vc.tick(g.id)
}

func (e *Exec) loadPtrNoRace(p PtrV) Value {
	saved := e.raceOn
	e.raceOn = false
	defer func() { e.raceOn = saved }()
	return e.loadPtr(p)
}

func (e *Exec) storePtrNoRace(p PtrV, v Value) {
	saved := e.raceOn
	e.raceOn = false
	defer func() { e.raceOn = saved }()
	e.storePtr(p, v)
}

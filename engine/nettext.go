package main

// Structured-string models of the net / netip / strconv text round trips, and resolver models.

import (
	"fmt"
	"go/types"
	"net"
	"net/netip"
	"strconv"
	"strings"
)

func (e *Exec) bytesSliceFromTerms(ts []*Term) SliceV {
	a := e.newArr(8, len(ts))
	for i, t := range ts {
		a.ov[i] = t
	}
	n := e.tc.Const(64, uint64(len(ts)))
	return SliceV{A: a, Off: e.tc.Const(64, 0), Len: n, Cap: n, Elem: types.Typ[types.Byte]}
}

func (e *Exec) bytesSliceFromConcrete(b []byte) SliceV {
	ts := make([]*Term, len(b))
	for i, x := range b {
		ts[i] = e.tc.Const(8, uint64(x))
	}
	return e.bytesSliceFromTerms(ts)
}

// parseConcreteAddrText parses a concrete "host:port" or IP text into the structured form.
func (e *Exec) parseConcreteAddrText(s string, hostPort bool) *StrV {
	tc := e.tc
	if hostPort {
		h, p, err := net.SplitHostPort(s)
		if err != nil {
			return nil
		}
		pv, err := strconv.ParseUint(p, 10, 16)
		if err != nil || strconv.FormatUint(pv, 10) != p {
			return nil
		}
		ipt := e.parseConcreteAddrText(h, false)
		if ipt == nil {
			hh := h
			if i := strings.IndexByte(h, '%'); i >= 0 {
				hh = h[:i]
			}
			if net.ParseIP(hh) != nil {
				return nil // an IP literal in a non-canonical spelling: not a host name
			}
			return &StrV{Kind: SHostPort, Host: concStr(h), Port: tc.Const(16, pv)}
		}
		return &StrV{Kind: SHostPort, IP: ipt.IP, Zone: ipt.Zone, Port: tc.Const(16, pv)}
	}
	zone := ""
	h := s
	if i := strings.IndexByte(s, '%'); i >= 0 {
		h, zone = s[:i], s[i+1:]
	}
	ip := net.ParseIP(h)
	if ip == nil || ip.String() != h {
		return nil
	}
	if ip4 := ip.To4(); ip4 != nil {
		ip = ip4
	}
	ts := make([]*Term, len(ip))
	for i, b := range ip {
		ts[i] = tc.Const(8, uint64(b))
	}
	return &StrV{Kind: SIPText, IP: ts, Zone: zone}
}

func (e *Exec) constTerms(b []byte) []*Term {
	ts := make([]*Term, len(b))
	for i, x := range b {
		ts[i] = e.tc.Const(8, uint64(x))
	}
	return ts
}

func (e *Exec) errValue(msg string) IfaceV {
	et := types.NewPointer(e.prog.namedType("errors", "errorString"))
	c := e.newCell(et.Elem())
	e.store(c.F[0], concStr(msg))
	return IfaceV{T: et, V: PtrV{C: c}}
}

func (e *Exec) addrErrValue(msg string) IfaceV {
	et := types.NewPointer(e.prog.namedType("net", "AddrError"))
	c := e.newCell(et.Elem())
	e.store(c.F[0], concStr(msg))
	return IfaceV{T: et, V: PtrV{C: c}}
}

// isMapped returns the condition that a 16-byte IP is an IPv4-mapped address.
func (e *Exec) isMapped(ip []*Term) *Term {
	tc := e.tc
	var cs []*Term
	for i := 0; i < 10; i++ {
		cs = append(cs, tc.Eq(ip[i], tc.Const(8, 0)))
	}
	cs = append(cs, tc.Eq(ip[10], tc.Const(8, 0xff)), tc.Eq(ip[11], tc.Const(8, 0xff)))
	return tc.And(cs...)
}

func (e *Exec) ipField(c *Cell, name string) *Cell {
	st := c.T.Underlying().(*types.Struct)
	for i := 0; i < st.NumFields(); i++ {
		if st.Field(i).Name() == name {
			return c.F[i]
		}
	}
	panic("no field " + name + " in " + c.T.String())
}

func (e *Exec) addrString(recv Value) Value {
	p := recv.(PtrV)
	if p.IsNil() {
		return concStr("<nil>")
	}
	c := p.C
	ipS := e.load(e.ipField(c, "IP")).(SliceV)
	port := e.load(e.ipField(c, "Port")).(*Term)
	zone := e.load(e.ipField(c, "Zone")).(*StrV)
	if zone.Kind != SConc {
		panic(unsupported{"symbolic zone"})
	}
	ip := e.sliceTerms(ipS)
	pt := e.tc.Extract(port, 15, 0)
	if len(ip) == 0 {
		// ipEmptyString: "" host
		if port.IsConst() {
			return concStr(net.JoinHostPort("", strconv.Itoa(int(port.SVal()))))
		}
		return &StrV{Kind: SHostPort, Host: concStr(""), Port: pt}
	}
	if len(ip) != 4 && len(ip) != 16 {
		return e.opaqueStr()
	}
	return e.normAddrStr(&StrV{Kind: SHostPort, IP: ip, Zone: zone.S, Port: pt})
}

// normAddrStr turns fully concrete structured strings into concrete text.
func (e *Exec) normAddrStr(s *StrV) *StrV {
	conc := func(ts []*Term) ([]byte, bool) {
		b := make([]byte, len(ts))
		for i, t := range ts {
			if !t.IsConst() {
				return nil, false
			}
			b[i] = byte(t.Val)
		}
		return b, true
	}
	switch s.Kind {
	case SIPText:
		if b, ok := conc(s.IP); ok {
			txt := net.IP(b).String()
			if s.Zone != "" {
				txt += "%" + s.Zone
			}
			return concStr(txt)
		}
	case SHostPort:
		if !s.Port.IsConst() {
			return s
		}
		if s.Host != nil {
			if s.Host.Kind == SConc {
				return concStr(net.JoinHostPort(s.Host.S, strconv.Itoa(int(s.Port.Val))))
			}
			return s
		}
		if b, ok := conc(s.IP); ok {
			txt := net.IP(b).String()
			if s.Zone != "" {
				txt += "%" + s.Zone
			}
			return concStr(net.JoinHostPort(txt, strconv.Itoa(int(s.Port.Val))))
		}
	case SPortText:
		if s.Port.IsConst() && s.Num == nil {
			return concStr(strconv.Itoa(int(s.Port.Val)))
		}
		if s.Num != nil && s.Num.IsConst() {
			return concStr(strconv.FormatInt(s.Num.SVal(), 10))
		}
	}
	return s
}

// netipFromIP builds a netip.Addr for the *textual rendering* of ip (so a mapped 16-byte IP is v4).
func (e *Exec) netipFromIP(ip []*Term, zone string) Value { return e.netipFromIPx(ip, zone, false) }

// exact: the bytes are the parsed address itself (no text rendering in between)
func (e *Exec) netipFromIPx(ip []*Term, zone string, exact bool) Value {
	tc := e.tc
	if len(ip) == 16 && zone == "" && !exact {
		if e.branch(e.isMapped(ip), "netip-mapped") {
			ip = ip[12:]
		}
	}
	fn := e.prog.funcByName("net/netip", "AddrFromSlice")
	r := e.callSync(fn, []Value{e.bytesSliceFromTerms(ip)}, nil).(TupleV)
	addr := r[0]
	if zone != "" && len(ip) == 16 {
		wz := e.prog.lookupMethodByName(e.prog.namedType("net/netip", "Addr"), nil, "WithZone")
		addr = e.callSync(wz, []Value{addr, concStr(zone)}, nil)
	}
	_ = tc
	return addr
}

func registerNetText(p *Program) {
	p.reg("(net.IP).String", func(e *Exec, g *G, a []Value) Value {
		s := a[0].(SliceV)
		ip := e.sliceTerms(s)
		switch len(ip) {
		case 0:
			return concStr("<nil>")
		case 4, 16:
			return e.normAddrStr(&StrV{Kind: SIPText, IP: ip})
		}
		return e.opaqueStr()
	})
	p.reg("(*net.UDPAddr).String", func(e *Exec, g *G, a []Value) Value { return e.addrString(a[0]) })
	p.reg("(*net.TCPAddr).String", func(e *Exec, g *G, a []Value) Value { return e.addrString(a[0]) })
	p.reg("net.JoinHostPort", func(e *Exec, g *G, a []Value) Value {
		h, pt := a[0].(*StrV), a[1].(*StrV)
		if h.Kind == SConc && pt.Kind == SConc {
			return concStr(net.JoinHostPort(h.S, pt.S))
		}
		var port *Term
		switch pt.Kind {
		case SPortText:
			port = pt.Port
		case SConc:
			v, err := strconv.ParseUint(pt.S, 10, 16)
			if err != nil {
				return e.opaqueStr()
			}
			port = e.tc.Const(16, v)
		default:
			return e.opaqueStr()
		}
		switch h.Kind {
		case SIPText:
			return e.normAddrStr(&StrV{Kind: SHostPort, IP: h.IP, Zone: h.Zone, Port: port})
		case SConc:
			if it := e.parseConcreteAddrText(h.S, false); it != nil {
				return e.normAddrStr(&StrV{Kind: SHostPort, IP: it.IP, Zone: it.Zone, Port: port})
			}
			return &StrV{Kind: SHostPort, Host: h, Port: port}
		case SBytes:
			return &StrV{Kind: SHostPort, Host: h, Port: port}
		}
		return e.opaqueStr()
	})
	p.reg("net.SplitHostPort", func(e *Exec, g *G, a []Value) Value {
		s := a[0].(*StrV)
		switch s.Kind {
		case SConc:
			h, pt, err := net.SplitHostPort(s.S)
			if err != nil {
				return TupleV{concStr(""), concStr(""), e.addrErrValue(err.Error())}
			}
			return TupleV{concStr(h), concStr(pt), IfaceV{}}
		case SHostPort:
			var host *StrV
			if s.Host != nil {
				host = s.Host
			} else {
				host = e.normAddrStr(&StrV{Kind: SIPText, IP: s.IP, Zone: s.Zone})
			}
			return TupleV{host, e.normAddrStr(&StrV{Kind: SPortText, Port: s.Port}), IfaceV{}}
		case SOpaque, SIPText, SPortText:
			// text without the host:port shape
			return TupleV{concStr(""), concStr(""), e.addrErrValue("missing port in address")}
		}
		panic(unsupported{"SplitHostPort on symbolic bytes"})
	})
	p.reg("net.ParseIP", func(e *Exec, g *G, a []Value) Value {
		s := a[0].(*StrV)
		switch s.Kind {
		case SConc:
			ip := net.ParseIP(s.S)
			if ip == nil {
				return SliceV{Elem: types.Typ[types.Byte]}
			}
			return e.bytesSliceFromConcrete(ip)
		case SIPText:
			if s.Zone != "" {
				return SliceV{Elem: types.Typ[types.Byte]}
			}
			return e.bytesSliceFromTerms(e.ipTo16(s.IP))
		case SBytes:
			// arbitrary host text from a SOCKS domain header: the harness states whether such
			// names may be IP literals; by default a symbolic choice
			if e.branch(e.input("domain-is-ip-literal", BoolS), "parseip-domain") {
				ip := make([]*Term, 16)
				for i := range ip {
					ip[i] = e.input(fmt.Sprintf("domain-literal-ip[%d]", i), BV(8))
				}
				return e.bytesSliceFromTerms(ip)
			}
			return SliceV{Elem: types.Typ[types.Byte]}
		case SOpaque, SPortText, SHostPort:
			return SliceV{Elem: types.Typ[types.Byte]}
		}
		panic(unsupported{"ParseIP on string kind"})
	})
	p.reg("net/netip.ParseAddr", func(e *Exec, g *G, a []Value) Value {
		s := a[0].(*StrV)
		zeroAddr := e.zero(e.prog.namedType("net/netip", "Addr"))
		if s.Kind == SConc {
			// concrete text: the real parser decides (non-canonical spellings included)
			na, err := netip.ParseAddr(s.S)
			if err != nil {
				return TupleV{zeroAddr, e.errValue(err.Error())}
			}
			return TupleV{e.netipFromIPx(e.constTerms(na.AsSlice()), na.Zone(), true), IfaceV{}}
		}
		if s.Kind == SConc {
			if st := e.parseConcreteAddrText(s.S, false); st != nil {
				s = st
			} else {
				return TupleV{zeroAddr, e.errValue("ParseAddr: unable to parse IP")}
			}
		}
		if s.Kind == SIPText {
			return TupleV{e.netipFromIP(s.IP, s.Zone), IfaceV{}}
		}
		return TupleV{zeroAddr, e.errValue("ParseAddr: unable to parse IP")}
	})
	p.reg("net/netip.ParseAddrPort", func(e *Exec, g *G, a []Value) Value {
		s := a[0].(*StrV)
		apT := e.prog.namedType("net/netip", "AddrPort")
		if s.Kind == SConc {
			nap, err := netip.ParseAddrPort(s.S)
			if err != nil {
				return TupleV{e.zero(apT), e.errValue(err.Error())}
			}
			ap := e.zero(apT).(*StructV)
			ap.F[0] = e.netipFromIPx(e.constTerms(nap.Addr().AsSlice()), nap.Addr().Zone(), true)
			ap.F[1] = e.tc.Const(16, uint64(nap.Port()))
			return TupleV{ap, IfaceV{}}
		}
		if s.Kind == SConc {
			if st := e.parseConcreteAddrText(s.S, true); st != nil {
				s = st
			}
		}
		if s.Kind == SHostPort && s.Host == nil {
			ap := e.zero(apT).(*StructV)
			ap.F[0] = e.netipFromIP(s.IP, s.Zone)
			ap.F[1] = s.Port
			return TupleV{ap, IfaceV{}}
		}
		return TupleV{e.zero(apT), e.errValue("ParseAddrPort: not an ip:port")}
	})
	p.reg("unique.Make", func(e *Exec, g *G, a []Value) Value {
		// canonical pointer per value (only netip.addrDetail is used: {isV6 bool, zoneV6 string})
		sv := a[0].(*StructV)
		key := "unique:"
		for _, f := range sv.F {
			switch x := f.(type) {
			case *Term:
				if !x.IsConst() {
					panic(unsupported{"unique.Make on symbolic value"})
				}
				key += fmt.Sprintf("%d|", x.Val)
			case *StrV:
				if x.Kind != SConc {
					panic(unsupported{"unique.Make on symbolic string"})
				}
				key += x.S + "|"
			default:
				panic(unsupported{"unique.Make field"})
			}
		}
		if v, ok := e.userState[key]; ok {
			return v
		}
		dt := e.prog.namedType("net/netip", "addrDetail")
		c := e.newCell(dt)
		e.store(c, sv)
		h := &StructV{F: []Value{PtrV{C: c}}}
		e.userState[key] = h
		return h
	})
	p.reg("strconv.Itoa", func(e *Exec, g *G, a []Value) Value {
		t := a[0].(*Term)
		if t.IsConst() {
			return concStr(strconv.Itoa(int(t.SVal())))
		}
		return &StrV{Kind: SPortText, Port: e.tc.Extract(t, 15, 0), Num: t}
	})
	p.reg("strconv.ParseUint", func(e *Exec, g *G, a []Value) Value {
		s := a[0].(*StrV)
		base := int(a[1].(*Term).SVal())
		bits := int(a[2].(*Term).SVal())
		switch s.Kind {
		case SConc:
			v, err := strconv.ParseUint(s.S, base, bits)
			if err != nil {
				return TupleV{e.tc.Const(64, v), e.errValue(err.Error())}
			}
			return TupleV{e.tc.Const(64, v), IfaceV{}}
		case SPortText:
			if base == 10 && bits >= 16 && s.Num == nil {
				return TupleV{e.tc.ZExt(s.Port, 64), IfaceV{}}
			}
		}
		panic(unsupported{"strconv.ParseUint on symbolic text"})
	})
	p.reg("strconv.Atoi", func(e *Exec, g *G, a []Value) Value {
		s := a[0].(*StrV)
		if s.Kind == SConc {
			v, err := strconv.Atoi(s.S)
			if err != nil {
				return TupleV{e.tc.Const(64, 0), e.errValue(err.Error())}
			}
			return TupleV{e.tc.Const(64, uint64(v)), IfaceV{}}
		}
		panic(unsupported{"strconv.Atoi on symbolic text"})
	})
	p.reg("net.ParseCIDR", func(e *Exec, g *G, a []Value) Value {
		s := a[0].(*StrV)
		if s.Kind != SConc {
			panic(unsupported{"ParseCIDR on symbolic text"})
		}
		ip, n, err := net.ParseCIDR(s.S)
		if err != nil {
			return TupleV{SliceV{Elem: types.Typ[types.Byte]}, PtrV{}, e.errValue(err.Error())}
		}
		nt := e.prog.namedType("net", "IPNet")
		c := e.newCell(nt)
		e.store(c.F[0], e.bytesSliceFromConcrete(n.IP))
		e.store(c.F[1], e.bytesSliceFromConcrete(n.Mask))
		return TupleV{e.bytesSliceFromConcrete(ip), PtrV{C: c}, IfaceV{}}
	})

	// Resolver model: literal IPs resolve to themselves; names resolve to anything (or fail).
	p.reg("net.ResolveUDPAddr", func(e *Exec, g *G, a []Value) Value { return e.resolveAddr(a[1].(*StrV), "UDPAddr") })
	p.reg("net.ResolveTCPAddr", func(e *Exec, g *G, a []Value) Value { return e.resolveAddr(a[1].(*StrV), "TCPAddr") })
}

func (e *Exec) resolveAddr(s *StrV, typ string) Value {
	tc := e.tc
	at := e.prog.namedType("net", typ)
	if s.Kind == SConc {
		if st := e.parseConcreteAddrText(s.S, true); st != nil {
			s = st
		} else if h, pt, err := net.SplitHostPort(s.S); err == nil {
			// non-canonical spellings of a literal address (leading zeros in the port, ...)
			zone := ""
			hh := h
			if i := strings.IndexByte(h, '%'); i >= 0 {
				hh, zone = h[:i], h[i+1:]
			}
			pn, perr := strconv.ParseUint(pt, 10, 16)
			if ip := net.ParseIP(hh); ip != nil && perr == nil {
				if ip4 := ip.To4(); ip4 != nil {
					ip = ip4
				}
				ts := make([]*Term, len(ip))
				for i, b := range ip {
					ts[i] = tc.Const(8, uint64(b))
				}
				s = &StrV{Kind: SHostPort, IP: ts, Zone: zone, Port: tc.Const(16, pn)}
			} else if perr == nil {
				s = &StrV{Kind: SHostPort, Host: concStr(h), Port: tc.Const(16, pn)}
			} else {
				return TupleV{PtrV{}, e.addrErrValue("unknown port")}
			}
		} else {
			return TupleV{PtrV{}, e.addrErrValue("unresolvable address")}
		}
	}
	if s.Kind != SHostPort {
		return TupleV{PtrV{}, e.addrErrValue("missing port in address")}
	}
	c := e.newCell(at)
	e.store(e.ipField(c, "Port"), tc.ZExt(s.Port, 64))
	emptyHost := s.Host != nil && s.Host.Kind == SConc && s.Host.S == ""
	if s.Host != nil && !emptyHost {
		// adversarial resolver for names: error, or any address of either family / form
		k := e.pick(3, "resolver")
		e.trace = append(e.trace, fmt.Sprintf("resolver answer kind %d", k))
		switch k {
		case 0:
			return TupleV{PtrV{}, e.addrErrValue("no such host")}
		case 1:
			ip := make([]*Term, 4)
			for i := range ip {
				ip[i] = e.input(fmt.Sprintf("resolved.ip4[%d]", i), BV(8))
			}
			e.store(e.ipField(c, "IP"), e.bytesSliceFromTerms(ip))
		default:
			ip := make([]*Term, 16)
			for i := range ip {
				ip[i] = e.input(fmt.Sprintf("resolved.ip16[%d]", i), BV(8))
			}
			e.store(e.ipField(c, "IP"), e.bytesSliceFromTerms(ip))
		}
		return TupleV{PtrV{C: c}, IfaceV{}}
	}
	if emptyHost {
		// ":port" resolves to the unspecified address (nil IP in Go)
		return TupleV{PtrV{C: c}, IfaceV{}}
	}
	ip := s.IP
	if len(ip) == 4 {
		// Go returns the 16-byte form for IP literals
		ip = e.ipTo16(ip)
	}
	e.store(e.ipField(c, "IP"), e.bytesSliceFromTerms(ip))
	e.store(e.ipField(c, "Zone"), concStr(s.Zone))
	return TupleV{PtrV{C: c}, IfaceV{}}
}

// decLen: number of decimal digits of an unsigned term.
func (e *Exec) decLen(t *Term) *Term {
	tc := e.tc
	w := t.S.W
	res := tc.Const(64, 1)
	lim := uint64(10)
	for d := 2; d <= 20; d++ {
		if w < 64 && lim > mask(w) {
			break
		}
		res = tc.Ite(tc.Cmp(OULE, tc.Const(w, lim), t), tc.Const(64, uint64(d)), res)
		if lim > (^uint64(0))/10 {
			break
		}
		lim *= 10
	}
	return res
}

// ipTextLen is the exact length of net.IP.String() for a 4- or 16-byte address.
func (e *Exec) ipTextLen(ip []*Term) *Term {
	tc := e.tc
	c := func(v uint64) *Term { return tc.Const(64, v) }
	v4len := func(b []*Term) *Term {
		sum := c(3)
		for _, x := range b {
			sum = tc.Bin(OAdd, sum, e.decLen(x))
		}
		return sum
	}
	if len(ip) == 4 {
		return v4len(ip)
	}
	g := make([]*Term, 8)
	zero := make([]*Term, 8)
	total := c(0)
	for i := 0; i < 8; i++ {
		g[i] = tc.Concat(ip[2*i], ip[2*i+1])
		zero[i] = tc.Eq(g[i], tc.Const(16, 0))
		d := tc.Ite(tc.Cmp(OULT, g[i], tc.Const(16, 0x10)), c(1), tc.Ite(tc.Cmp(OULT, g[i], tc.Const(16, 0x100)), c(2), tc.Ite(tc.Cmp(OULT, g[i], tc.Const(16, 0x1000)), c(3), c(4))))
		total = tc.Bin(OAdd, total, d)
	}
	res := tc.Bin(OAdd, total, c(7)) // no compression
	// choose the first longest zero run of length >= 2: build from the weakest candidate up
	for L := 2; L <= 8; L++ {
		for i := 8 - L; i >= 0; i-- {
			run := tc.And(zero[i : i+L]...)
			before, after := i, 8-i-L
			colons := 2
			if before > 0 {
				colons += before - 1
			}
			if after > 0 {
				colons += after - 1
			}
			l := tc.Bin(OAdd, tc.Bin(OSub, total, c(uint64(L))), c(uint64(colons)))
			res = tc.Ite(run, l, res)
		}
	}
	return tc.Ite(e.isMapped(ip), v4len(ip[12:]), res)
}

package main

// Operators, conversions, strings, maps, channels.

import (
	"fmt"
	"go/token"
	"go/types"
	"strconv"

	"golang.org/x/tools/go/ssa"
)

func (e *Exec) binop(g *G, op token.Token, x, y Value, xt, yt types.Type) (Value, bool) {
	tc := e.tc
	switch op {
	case token.EQL:
		return e.equal(x, y, xt), true
	case token.NEQ:
		return tc.Not(e.equal(x, y, xt)), true
	}
	if fx, ok := x.(*FloatV); ok {
		fy := y.(*FloatV)
		return e.floatOp(op, fx, fy), true
	}
	if sx, ok := x.(*StrV); ok {
		sy := y.(*StrV)
		switch op {
		case token.ADD:
			return e.strConcat(sx, sy), true
		case token.LSS, token.LEQ, token.GTR, token.GEQ:
			if sx.Kind == SConc && sy.Kind == SConc {
				var r bool
				switch op {
				case token.LSS:
					r = sx.S < sy.S
				case token.LEQ:
					r = sx.S <= sy.S
				case token.GTR:
					r = sx.S > sy.S
				case token.GEQ:
					r = sx.S >= sy.S
				}
				return tc.Bool(r), true
			}
		}
		panic(unsupported{"string op " + op.String()})
	}
	a, ok := x.(*Term)
	if !ok {
		panic(fmt.Sprintf("binop %s on %T", op, x))
	}
	b := y.(*Term)
	if a.S.K == SBool {
		switch op {
		case token.AND, token.LAND:
			return tc.And(a, b), true
		case token.OR, token.LOR:
			return tc.Or(a, b), true
		case token.XOR:
			return tc.Not(tc.Eq(a, b)), true
		}
		panic(unsupported{"bool op " + op.String()})
	}
	_, signed, _ := intWidth(xt)
	w := a.S.W
	switch op {
	case token.SHL, token.SHR:
		// shift count may have a different width/signedness
		_, ysigned, _ := intWidth(yt)
		if ysigned {
			if !e.check(g, tc.Cmp(OSLE, tc.Const(b.S.W, 0), b), "negative shift amount") {
				return nil, false
			}
		}
		var cnt *Term
		var big *Term // count >= w
		if b.S.W > w {
			big = tc.Cmp(OULE, tc.Const(b.S.W, uint64(w)), b)
			cnt = tc.Extract(b, w-1, 0)
		} else {
			cnt = tc.ZExt(b, w)
			big = tc.Bool(false)
		}
		var r *Term
		if op == token.SHL {
			r = tc.Ite(big, tc.Const(w, 0), tc.Bin(OShl, a, cnt))
		} else if signed {
			r = tc.Ite(big, tc.Bin(OAShr, a, tc.Const(w, uint64(w-1))), tc.Bin(OAShr, a, cnt))
		} else {
			r = tc.Ite(big, tc.Const(w, 0), tc.Bin(OLShr, a, cnt))
		}
		return r, true
	}
	if a.S != b.S {
		panic(fmt.Sprintf("binop %s width mismatch %v %v", op, a.S, b.S))
	}
	switch op {
	case token.ADD:
		return tc.Bin(OAdd, a, b), true
	case token.SUB:
		return tc.Bin(OSub, a, b), true
	case token.MUL:
		return tc.Bin(OMul, a, b), true
	case token.QUO, token.REM:
		if !e.check(g, tc.Not(tc.Eq(b, tc.Const(w, 0))), "integer divide by zero") {
			return nil, false
		}
		if signed {
			if op == token.QUO {
				return tc.Bin(OSDiv, a, b), true
			}
			return tc.Bin(OSRem, a, b), true
		}
		if op == token.QUO {
			return tc.Bin(OUDiv, a, b), true
		}
		return tc.Bin(OURem, a, b), true
	case token.AND:
		return tc.Bin(OBAnd, a, b), true
	case token.OR:
		return tc.Bin(OBOr, a, b), true
	case token.XOR:
		return tc.Bin(OBXor, a, b), true
	case token.AND_NOT:
		return tc.Bin(OBAnd, a, tc.BNot(b)), true
	case token.LSS:
		if signed {
			return tc.Cmp(OSLT, a, b), true
		}
		return tc.Cmp(OULT, a, b), true
	case token.LEQ:
		if signed {
			return tc.Cmp(OSLE, a, b), true
		}
		return tc.Cmp(OULE, a, b), true
	case token.GTR:
		if signed {
			return tc.Cmp(OSLT, b, a), true
		}
		return tc.Cmp(OULT, b, a), true
	case token.GEQ:
		if signed {
			return tc.Cmp(OSLE, b, a), true
		}
		return tc.Cmp(OULE, b, a), true
	}
	panic(unsupported{"binop " + op.String()})
}

func (e *Exec) floatOp(op token.Token, a, b *FloatV) Value {
	tc := e.tc
	known := a.Known && b.Known
	switch op {
	case token.ADD:
		return &FloatV{Known: known, F: a.F + b.F, Op: "add", A: a, B: b}
	case token.SUB:
		return &FloatV{Known: known, F: a.F - b.F, Op: "sub", A: a, B: b}
	case token.MUL:
		return &FloatV{Known: known, F: a.F * b.F, Op: "mul", A: a, B: b}
	case token.QUO:
		return &FloatV{Known: known, F: a.F / b.F, Op: "div", A: a, B: b}
	}
	if known {
		switch op {
		case token.LSS:
			return tc.Bool(a.F < b.F)
		case token.LEQ:
			return tc.Bool(a.F <= b.F)
		case token.GTR:
			return tc.Bool(a.F > b.F)
		case token.GEQ:
			return tc.Bool(a.F >= b.F)
		}
	}
	panic(unsupported{"float comparison on symbolic floats"})
}

// equal implements Go ==.
func (e *Exec) equal(x, y Value, t types.Type) *Term {
	tc := e.tc
	switch a := x.(type) {
	case nil:
		switch b := y.(type) {
		case nil:
			return tc.Bool(true)
		default:
			return e.equal(b, nil, t)
		}
	case *Term:
		return tc.Eq(a, y.(*Term))
	case *FloatV:
		b := y.(*FloatV)
		if a.Known && b.Known {
			return tc.Bool(a.F == b.F)
		}
		panic(unsupported{"float equality"})
	case *StrV:
		return e.strEq(a, y.(*StrV))
	case PtrV:
		b, ok := y.(PtrV)
		if !ok {
			return tc.Bool(a.IsNil())
		}
		if a.C != nil || b.C != nil {
			return tc.Bool(a.C == b.C && a.A == nil && b.A == nil)
		}
		if a.A != b.A {
			return tc.Bool(false)
		}
		if a.A == nil {
			return tc.Bool(true)
		}
		return tc.Eq(a.I, b.I)
	case SliceV:
		// only comparison with nil is legal
		if b, ok := y.(SliceV); ok && !b.IsNil() {
			panic("slice == slice")
		}
		return tc.Bool(a.IsNil())
	case *MapV:
		if b, ok := y.(*MapV); ok && b != nil {
			return tc.Bool(a == b)
		}
		return tc.Bool(a == nil)
	case *ChanV:
		b, _ := y.(*ChanV)
		return tc.Bool(a == b)
	case *FuncV:
		if b, ok := y.(*FuncV); ok && b != nil {
			panic("func == func")
		}
		return tc.Bool(a == nil)
	case IfaceV:
		b, ok := y.(IfaceV)
		if !ok {
			if y == nil {
				return tc.Bool(a.T == nil)
			}
			panic(fmt.Sprintf("iface == %T", y))
		}
		if a.T == nil || b.T == nil {
			return tc.Bool(a.T == nil && b.T == nil)
		}
		if !types.Identical(a.T, b.T) {
			return tc.Bool(false)
		}
		if !types.Comparable(a.T) {
			panic(unsupported{"comparing uncomparable dynamic type " + a.T.String()})
		}
		return e.equal(a.V, b.V, a.T)
	case *StructV:
		b := y.(*StructV)
		var cs []*Term
		st, _ := t.Underlying().(*types.Struct)
		for i := range a.F {
			var ft types.Type
			if st != nil {
				ft = st.Field(i).Type()
			}
			cs = append(cs, e.equal(a.F[i], b.F[i], ft))
		}
		return tc.And(cs...)
	case *ArrayV:
		b := y.(*ArrayV)
		var cs []*Term
		if a.SA != nil {
			for i := 0; i < a.SA.N; i++ {
				k := tc.Const(64, uint64(i))
				cs = append(cs, tc.Eq(e.arrRead(a.SA, k), e.arrRead(b.SA, k)))
			}
		} else {
			var et types.Type
			if at, ok := t.Underlying().(*types.Array); ok {
				et = at.Elem()
			}
			for i := range a.E {
				cs = append(cs, e.equal(a.E[i], b.E[i], et))
			}
		}
		return tc.And(cs...)
	}
	panic(fmt.Sprintf("equal on %T", x))
}

func (e *Exec) convert(x Value, from, to types.Type) Value {
	tc := e.tc
	fu, tu := from.Underlying(), to.Underlying()
	if tw, _, ok := intWidth(to); ok {
		if fw, fsigned, ok2 := intWidth(from); ok2 {
			t := x.(*Term)
			_ = fw
			if tw <= t.S.W {
				return tc.Extract(t, tw-1, 0)
			}
			if fsigned {
				return tc.SExt(t, tw)
			}
			return tc.ZExt(t, tw)
		}
		if isFloat(from) {
			fv := x.(*FloatV)
			if fv.Known {
				return tc.Const(tw, uint64(int64(fv.F)))
			}
			// truncation of a float that is a known function of an integer
			switch fv.Op {
			case "secs": // whole seconds of a nanosecond count
				q := tc.Bin(OSDiv, fv.T, tc.Const(64, 1_000_000_000))
				if tw < 64 {
					return tc.Extract(q, tw-1, 0)
				}
				return q
			case "ofint":
				if tw < 64 {
					return tc.Extract(fv.T, tw-1, 0)
				}
				return fv.T
			}
			panic(unsupported{"float->int of symbolic float"})
		}
		if _, ok := fu.(*types.Pointer); ok {
			panic(unsupported{"pointer->uintptr"})
		}
		if b, ok := fu.(*types.Basic); ok && b.Kind() == types.UnsafePointer {
			panic(unsupported{"unsafe.Pointer->uintptr"})
		}
	}
	if isFloat(to) {
		if _, _, ok := intWidth(from); ok {
			t := x.(*Term)
			_, signed, _ := intWidth(from)
			var t64 *Term
			if signed {
				t64 = tc.SExt(t, 64)
			} else {
				t64 = tc.ZExt(t, 64)
			}
			if t.IsConst() {
				if signed {
					return &FloatV{Known: true, F: float64(t.SVal()), Op: "ofint", T: t64}
				}
				return &FloatV{Known: true, F: float64(t.Val), Op: "ofint", T: t64}
			}
			return &FloatV{Op: "ofint", T: t64}
		}
		if isFloat(from) {
			return x
		}
	}
	if isString(to) {
		if sl, ok := fu.(*types.Slice); ok {
			_ = sl
			s := x.(SliceV)
			return e.bytesToStr(s)
		}
		if _, _, ok := intWidth(from); ok {
			t := x.(*Term)
			if t.IsConst() {
				return concStr(string(rune(t.SVal())))
			}
			panic(unsupported{"string(symbolic rune)"})
		}
		if isString(from) {
			return x
		}
	}
	if sl, ok := tu.(*types.Slice); ok && isString(from) {
		s := x.(*StrV)
		if ew, ok := isScalarElem(sl.Elem()); ok && ew == 8 {
			return e.strToBytes(s, sl.Elem())
		}
		panic(unsupported{"string -> []rune"})
	}
	if _, ok := tu.(*types.Pointer); ok {
		if b, ok := fu.(*types.Basic); ok && b.Kind() == types.UnsafePointer {
			panic(unsupported{"unsafe.Pointer -> pointer"})
		}
	}
	if b, ok := tu.(*types.Basic); ok && b.Kind() == types.UnsafePointer {
		panic(unsupported{"conversion to unsafe.Pointer"})
	}
	panic(unsupported{fmt.Sprintf("convert %s -> %s", from, to)})
}

// ---------- strings ----------

func (e *Exec) strLen(s *StrV) *Term {
	switch s.Kind {
	case SConc:
		return e.tc.Const(64, uint64(len(s.S)))
	case SBytes:
		return e.tc.Const(64, uint64(len(s.B)))
	}
	// structured strings: length is an uninterpreted positive value
	if s.lenTerm == nil {
		tc := e.tc
		s.lenTerm = e.fresh("strlen", BV(64))
		lo, hi := uint64(1), uint64(300)
		switch s.Kind {
		case SIPText:
			// exact length of the rendering
			s.lenTerm = e.ipTextLen(s.IP)
			if s.Zone != "" {
				s.lenTerm = tc.Bin(OAdd, s.lenTerm, tc.Const(64, uint64(1+len(s.Zone))))
			}
			return s.lenTerm
		case SPortText:
			if s.Num == nil {
				s.lenTerm = e.decLen(s.Port)
				return s.lenTerm
			}
			lo, hi = 1, 20
		case SHostPort:
			lo, hi = 3, 400
		}
		e.assume(tc.And(tc.Cmp(OULE, tc.Const(64, lo), s.lenTerm), tc.Cmp(OULE, s.lenTerm, tc.Const(64, hi))))
	}
	return s.lenTerm
}

func (e *Exec) strIndex(s *StrV, i *Term) *Term {
	tc := e.tc
	switch s.Kind {
	case SConc:
		if i.IsConst() {
			return tc.Const(8, uint64(s.S[i.Val]))
		}
		res := tc.Const(8, 0)
		for k := len(s.S) - 1; k >= 0; k-- {
			res = tc.Ite(tc.Eq(i, tc.Const(64, uint64(k))), tc.Const(8, uint64(s.S[k])), res)
		}
		return res
	case SBytes:
		if i.IsConst() {
			return s.B[i.Val]
		}
		res := tc.Const(8, 0)
		for k := len(s.B) - 1; k >= 0; k-- {
			res = tc.Ite(tc.Eq(i, tc.Const(64, uint64(k))), s.B[k], res)
		}
		return res
	}
	panic(unsupported{"index into structured string"})
}

func (e *Exec) strSlice(s *StrV, lo, hi *Term) *StrV {
	// IP text cut at its zone separator (text[:IndexByte(text, '%')]): the same text without the zone
	if s.Kind == SIPText && s.Zone != "" && lo.IsConst() && lo.Val == 0 {
		same := e.tc.Eq(hi, e.ipTextLen(s.IP))
		if !same.IsTrue() && !same.IsFalse() {
			// decide it: is the cut exactly at the separator on every input of this path?
			e.sol.label = "ip-text-cut"
			r := e.sol.Check(e.tc.Not(same))
			e.sol.Pop()
			if r == RUnsat {
				same = e.tc.Bool(true)
			}
		}
		if same.IsTrue() {
			return &StrV{Kind: SIPText, IP: s.IP}
		}
	}
	l := int(e.concretize(lo, "string slice lo"))
	h := int(e.concretize(hi, "string slice hi"))
	switch s.Kind {
	case SConc:
		return concStr(s.S[l:h])
	case SBytes:
		return e.normStr(&StrV{Kind: SBytes, B: s.B[l:h]})
	}
	panic(unsupported{"slice of structured string"})
}

func (e *Exec) normStr(s *StrV) *StrV {
	if s.Kind == SBytes {
		buf := make([]byte, len(s.B))
		for i, b := range s.B {
			if !b.IsConst() {
				return s
			}
			buf[i] = byte(b.Val)
		}
		return concStr(string(buf))
	}
	return s
}

func (e *Exec) strBytes(s *StrV) []*Term {
	switch s.Kind {
	case SConc:
		out := make([]*Term, len(s.S))
		for i := 0; i < len(s.S); i++ {
			out[i] = e.tc.Const(8, uint64(s.S[i]))
		}
		return out
	case SBytes:
		return s.B
	}
	// structured text: the characters are unconstrained; only the length is known
	if s.B == nil {
		n := int(e.concretize(e.strLen(s), "structured string length"))
		s.B = make([]*Term, n)
		for i := range s.B {
			s.B[i] = e.fresh("txt", BV(8))
		}
	}
	return s.B
}

func (e *Exec) strConcat(a, b *StrV) *StrV {
	if a.Kind == SConc && b.Kind == SConc {
		return concStr(a.S + b.S)
	}
	if a.Kind == SConc && a.S == "" {
		return b
	}
	if b.Kind == SConc && b.S == "" {
		return a
	}
	if (a.Kind == SConc || a.Kind == SBytes) && (b.Kind == SConc || b.Kind == SBytes) {
		return &StrV{Kind: SBytes, B: append(append([]*Term{}, e.strBytes(a)...), e.strBytes(b)...)}
	}
	// concatenations involving structured text are only used for messages
	e.nextID++
	return &StrV{Kind: SOpaque, ID: e.nextID}
}

func (e *Exec) strEq(a, b *StrV) *Term {
	tc := e.tc
	if a == b {
		return tc.Bool(true)
	}
	if a.Kind > b.Kind {
		a, b = b, a
	}
	switch {
	case a.Kind == SConc && b.Kind == SConc:
		return tc.Bool(a.S == b.S)
	case a.Kind <= SBytes && b.Kind <= SBytes:
		ab, bb := e.strBytes(a), e.strBytes(b)
		if len(ab) != len(bb) {
			return tc.Bool(false)
		}
		var cs []*Term
		for i := range ab {
			cs = append(cs, tc.Eq(ab[i], bb[i]))
		}
		return tc.And(cs...)
	case a.Kind == SConc && b.Kind == SPortText:
		v, err := strconv.ParseUint(a.S, 10, 16)
		if err != nil || strconv.FormatUint(v, 10) != a.S {
			return tc.Bool(false)
		}
		return tc.Eq(b.Port, tc.Const(16, v))
	case a.Kind == SPortText && b.Kind == SPortText:
		return tc.Eq(a.Port, b.Port)
	case a.Kind == SHostPort && b.Kind == SHostPort:
		if (a.Host == nil) != (b.Host == nil) {
			return tc.Bool(false) // IP literal vs hostname never render equal (hostnames here are non-IP)
		}
		if a.Host != nil {
			return tc.And(e.strEq(a.Host, b.Host), tc.Eq(a.Port, b.Port))
		}
		return tc.And(e.ipTextEq(a.IP, a.Zone, b.IP, b.Zone), tc.Eq(a.Port, b.Port))
	case a.Kind == SIPText && b.Kind == SIPText:
		return e.ipTextEq(a.IP, a.Zone, b.IP, b.Zone)
	case a.Kind == SConc && a.S == "" && b.Kind != SOpaque:
		return tc.Bool(false)
	case b.Kind == SOpaque || a.Kind == SOpaque:
		// text of unknown content (formatting of symbolic values): equal only to itself for
		// certain; otherwise it may differ (candidates are confirmed natively)
		return tc.Bool(a.Kind == SOpaque && b.Kind == SOpaque && a.ID == b.ID)
	case a.Kind == SConc && (b.Kind == SHostPort || b.Kind == SIPText):
		// compare against the parse of the concrete text
		cs := e.parseConcreteAddrText(a.S, b.Kind == SHostPort)
		if cs == nil {
			return tc.Bool(false)
		}
		return e.strEq(cs, b)
	}
	panic(unsupported{fmt.Sprintf("string equality between kinds %d and %d", a.Kind, b.Kind)})
}

// ipTextEq: two IPs render to the same text iff their canonical 16-byte forms and zones are equal.
// (a 4-byte address and its ::ffff: mapped form both print dotted-quad.)
func (e *Exec) ipTextEq(a []*Term, az string, b []*Term, bz string) *Term {
	tc := e.tc
	if az != bz {
		return tc.Bool(false)
	}
	a16, b16 := e.ipTo16(a), e.ipTo16(b)
	if a16 == nil || b16 == nil {
		if len(a) != len(b) {
			return tc.Bool(false)
		}
		a16, b16 = a, b
	}
	var cs []*Term
	for i := range a16 {
		cs = append(cs, tc.Eq(a16[i], b16[i]))
	}
	return tc.And(cs...)
}

func (e *Exec) ipTo16(ip []*Term) []*Term {
	tc := e.tc
	switch len(ip) {
	case 16:
		return ip
	case 4:
		out := make([]*Term, 16)
		for i := 0; i < 10; i++ {
			out[i] = tc.Const(8, 0)
		}
		out[10], out[11] = tc.Const(8, 0xff), tc.Const(8, 0xff)
		copy(out[12:], ip)
		return out
	}
	return nil
}

func (e *Exec) bytesToStr(s SliceV) *StrV {
	if s.IsNil() {
		return concStr("")
	}
	n := int(e.concretize(s.Len, "string(bytes) length"))
	out := make([]*Term, n)
	for i := 0; i < n; i++ {
		out[i] = e.arrRead(s.A, e.tc.Bin(OAdd, s.Off, e.tc.Const(64, uint64(i))))
	}
	e.accessArr(s.A, false)
	return e.normStr(&StrV{Kind: SBytes, B: out})
}

func (e *Exec) strToBytes(s *StrV, et types.Type) SliceV {
	bs := e.strBytes(s)
	a := e.newArr(8, len(bs))
	for i, b := range bs {
		a.ov[i] = b
	}
	n := e.tc.Const(64, uint64(len(bs)))
	return SliceV{A: a, Off: e.tc.Const(64, 0), Len: n, Cap: n, Elem: et}
}

// ---------- maps ----------

func (e *Exec) keyEq(a, b Value, kt types.Type) *Term {
	if kt == nil {
		if _, ok := a.(IfaceV); !ok {
			return e.tc.Bool(false)
		}
	}
	return e.equal(a, b, kt)
}

func (e *Exec) mapFind(m *MapV, k Value) *mapEntry {
	for _, en := range m.E {
		c := e.keyEq(en.K, k, m.KT)
		if c.IsTrue() {
			return en
		}
		if c.IsFalse() {
			continue
		}
		if e.branch(c, "mapkey") {
			return en
		}
	}
	return nil
}

func (e *Exec) symKey(k Value) *Term {
	t := k.(*Term)
	return e.tc.ZExt(t, 64)
}

func (e *Exec) execLookup(g *G, f *Frame, in *ssa.Lookup) bool {
	tc := e.tc
	x := e.get(f, in.X)
	if s, ok := x.(*StrV); ok {
		idx := e.to64(e.get(f, in.Index).(*Term), in.Index.Type())
		if !e.check(g, tc.Cmp(OULT, idx, e.strLen(s)), "string index out of range") {
			return false
		}
		f.env[in] = e.strIndex(s, idx)
		return true
	}
	m := x.(*MapV)
	k := e.get(f, in.Index)
	vt := in.X.Type().Underlying().(*types.Map).Elem()
	var val Value
	var found *Term
	if m == nil {
		val, found = e.zero(vt), tc.Bool(false)
	} else if m.Sym {
		e.accessMap(m, false)
		found = tc.Not(tc.Eq(tc.Select(m.Present, e.symKey(k)), tc.Const(8, 0)))
		val = e.zero(vt)
	} else {
		e.accessMap(m, false)
		if en := e.mapFind(m, k); en != nil {
			val, found = en.V, tc.Bool(true)
		} else {
			val, found = e.zero(vt), tc.Bool(false)
		}
	}
	if in.CommaOk {
		f.env[in] = TupleV{val, found}
	} else {
		f.env[in] = val
	}
	return true
}

func (e *Exec) mapUpdate(m *MapV, k, v Value) {
	tc := e.tc
	e.accessMap(m, true)
	if m.Sym {
		key := e.symKey(k)
		was := tc.Not(tc.Eq(tc.Select(m.Present, key), tc.Const(8, 0)))
		m.Present = tc.Store(m.Present, key, tc.Const(8, 1))
		m.SymLen = tc.Ite(was, m.SymLen, tc.Bin(OAdd, m.SymLen, tc.Const(64, 1)))
		return
	}
	if en := e.mapFind(m, k); en != nil {
		en.V = v
		return
	}
	m.E = append(m.E, &mapEntry{K: k, V: v})
}

func (e *Exec) mapDelete(m *MapV, k Value) {
	tc := e.tc
	if m == nil {
		return
	}
	e.accessMap(m, true)
	if m.Sym {
		key := e.symKey(k)
		was := tc.Not(tc.Eq(tc.Select(m.Present, key), tc.Const(8, 0)))
		m.Present = tc.Store(m.Present, key, tc.Const(8, 0))
		m.SymLen = tc.Ite(was, tc.Bin(OSub, m.SymLen, tc.Const(64, 1)), m.SymLen)
		return
	}
	if en := e.mapFind(m, k); en != nil {
		for i, x := range m.E {
			if x == en {
				m.E = append(append([]*mapEntry{}, m.E[:i]...), m.E[i+1:]...)
				break
			}
		}
	}
}

func (e *Exec) mapLen(m *MapV) *Term {
	if m == nil {
		return e.tc.Const(64, 0)
	}
	e.accessMap(m, false)
	if m.Sym {
		return m.SymLen
	}
	return e.tc.Const(64, uint64(len(m.E)))
}

// ---------- channels ----------

func (e *Exec) chanRecvReady(ch *ChanV) bool {
	if ch == nil {
		return false
	}
	if len(ch.Buf) > 0 || ch.Closed {
		return true
	}
	for _, w := range e.waiters[ch] {
		if w.isSend && !w.done && (w.group == nil || !w.group.done) {
			return true
		}
	}
	return false
}

func (e *Exec) chanSendReady(ch *ChanV) bool {
	if ch == nil {
		return false
	}
	if ch.Closed {
		return true // will panic
	}
	if len(ch.Buf) < ch.Cap {
		return true
	}
	for _, w := range e.waiters[ch] {
		if !w.isSend && !w.done && (w.group == nil || !w.group.done) {
			return true
		}
	}
	return false
}

func (e *Exec) firstWaiter(ch *ChanV, send bool) *waiter {
	ws := e.waiters[ch]
	for i, w := range ws {
		if w.done || (w.group != nil && w.group.done) {
			continue
		}
		if w.isSend == send {
			e.waiters[ch] = append(append([]*waiter{}, ws[:i]...), ws[i+1:]...)
			return w
		}
	}
	return nil
}

func (e *Exec) completeWaiter(w *waiter, val Value, ok bool) {
	w.done = true
	w.val = val
	w.ok = ok
	if w.group != nil {
		w.group.done = true
		w.group.chosen = w.caseIx
		w.group.val = val
		w.group.ok = ok
	}
	e.wake(w.g)
}

// doSend performs a ready send. Returns false if it panicked.
func (e *Exec) doSend(g *G, ch *ChanV, v Value) bool {
	if ch.Closed {
		e.raise(g, IfaceV{T: e.prog.runtimeErrType, V: concStr("send on closed channel")}, "send on closed channel", true)
		return false
	}
	if w := e.firstWaiter(ch, false); w != nil {
		w.g.vc.join(g.vc)
		g.vc.join(w.g.vc) // unbuffered rendezvous synchronises both ways
		g.vc.tick(g.id)
		w.g.vc.tick(w.g.id)
		e.completeWaiter(w, v, true)
		return true
	}
	if len(ch.Buf) < ch.Cap {
		ch.Buf = append(ch.Buf, v)
		ch.sendVCs = append(ch.sendVCs, g.vc.clone())
		g.vc.tick(g.id)
		return true
	}
	panic("doSend on non-ready channel")
}

func (e *Exec) doRecv(g *G, ch *ChanV) (Value, bool) {
	g.vc.tick(g.id)
	if len(ch.Buf) > 0 {
		v := ch.Buf[0]
		ch.Buf = ch.Buf[1:]
		if len(ch.sendVCs) > 0 {
			g.vc.join(ch.sendVCs[0])
			ch.sendVCs = ch.sendVCs[1:]
		}
		// a blocked sender can now move into the buffer
		if w := e.firstWaiter(ch, true); w != nil {
			ch.Buf = append(ch.Buf, w.val)
			ch.sendVCs = append(ch.sendVCs, w.g.vc.clone())
			e.completeWaiter(w, nil, true)
		}
		return v, true
	}
	if w := e.firstWaiter(ch, true); w != nil {
		g.vc.join(w.g.vc)
		w.g.vc.join(g.vc)
		v := w.val
		e.completeWaiter(w, nil, true)
		return v, true
	}
	if ch.Closed {
		g.vc.join(ch.vc)
		return e.zero(ch.Elem), false
	}
	panic("doRecv on non-ready channel")
}

func (e *Exec) closeChan(g *G, ch *ChanV) bool {
	if ch == nil {
		e.raise(g, IfaceV{T: e.prog.runtimeErrType, V: concStr("close of nil channel")}, "close of nil channel", true)
		return false
	}
	if ch.Closed {
		e.raise(g, IfaceV{T: e.prog.runtimeErrType, V: concStr("close of closed channel")}, "close of closed channel", true)
		return false
	}
	ch.Closed = true
	ch.vc = g.vc.clone()
	g.vc.tick(g.id)
	// wake all receivers; senders will panic on retry
	ws := e.waiters[ch]
	e.waiters[ch] = nil
	for _, w := range ws {
		if w.done || (w.group != nil && w.group.done) {
			continue
		}
		if !w.isSend {
			w.g.vc.join(ch.vc)
			e.completeWaiter(w, e.zero(ch.Elem), false)
		} else {
			// sender blocked on a channel that is now closed: panics when it resumes
			w.done = true
			w.ok = false
			if w.group != nil {
				w.group.done = true
				w.group.chosen = -2
			}
			e.wake(w.g)
		}
	}
	return true
}

func (e *Exec) syncPoint(g *G, instr ssa.Instruction) bool {
	if !e.schedFork {
		return false
	}
	key := syncKey{g.id, instr}
	if !e.preempted[key] {
		e.preempted[key] = true
		if e.maybePreempt(g) {
			return true
		}
	}
	delete(e.preempted, key)
	return false
}

func (e *Exec) execSend(g *G, f *Frame, in *ssa.Send) bool {
	if g.waitW != nil {
		w := g.waitW
		if !w.done {
			e.block(g, "chan send")
			return false
		}
		g.waitW = nil
		if !w.ok {
			e.raise(g, IfaceV{T: e.prog.runtimeErrType, V: concStr("send on closed channel")}, "send on closed channel", true)
			return false
		}
		return true
	}
	if e.syncPoint(g, in) {
		return false
	}
	ch := e.get(f, in.Chan).(*ChanV)
	v := e.get(f, in.X)
	if ch == nil {
		e.block(g, "send on nil channel")
		return false
	}
	if e.chanSendReady(ch) {
		return e.doSend(g, ch, v)
	}
	w := &waiter{g: g, isSend: true, val: v, ch: ch}
	e.waiters[ch] = append(e.waiters[ch], w)
	g.waitW = w
	e.block(g, fmt.Sprintf("chan send (chan#%d) in %s", ch.ID, f.fn))
	return false
}

func (e *Exec) execRecv(g *G, f *Frame, in *ssa.UnOp, ch *ChanV) bool {
	set := func(v Value, ok bool) {
		if in.CommaOk {
			f.env[in] = TupleV{v, e.tc.Bool(ok)}
		} else {
			f.env[in] = v
		}
	}
	if g.waitW != nil {
		w := g.waitW
		if !w.done {
			e.block(g, "chan recv")
			return false
		}
		g.waitW = nil
		set(w.val, w.ok)
		return true
	}
	if e.syncPoint(g, in) {
		return false
	}
	if ch == nil {
		e.block(g, "receive from nil channel")
		return false
	}
	if e.chanRecvReady(ch) {
		v, ok := e.doRecv(g, ch)
		set(v, ok)
		return true
	}
	w := &waiter{g: g, ch: ch}
	e.waiters[ch] = append(e.waiters[ch], w)
	g.waitW = w
	e.block(g, fmt.Sprintf("chan receive (chan#%d) in %s", ch.ID, f.fn))
	return false
}

func (e *Exec) execSelect(g *G, f *Frame, in *ssa.Select) bool {
	tc := e.tc
	// result tuple: (index int, recvOk bool, r_0 T_0, ... )
	mk := func(idx int, recvOk bool, recvCase int, val Value) {
		tv := TupleV{tc.Const(64, uint64(int64(idx))), tc.Bool(recvOk)}
		for i, st := range in.States {
			if st.Dir == types.RecvOnly {
				if i == recvCase {
					tv = append(tv, val)
				} else {
					tv = append(tv, e.zero(st.Chan.Type().Underlying().(*types.Chan).Elem()))
				}
			}
		}
		f.env[in] = tv
	}
	if g.waitSel != nil {
		sg := g.waitSel
		if !sg.done {
			e.block(g, "select")
			return false
		}
		g.waitSel = nil
		if sg.chosen == -2 {
			e.raise(g, IfaceV{T: e.prog.runtimeErrType, V: concStr("send on closed channel")}, "send on closed channel", true)
			return false
		}
		st := in.States[sg.chosen]
		if st.Dir == types.RecvOnly {
			mk(sg.chosen, sg.ok, sg.chosen, sg.val)
		} else {
			mk(sg.chosen, false, -1, nil)
		}
		return true
	}
	if e.syncPoint(g, in) {
		return false
	}
	chans := make([]*ChanV, len(in.States))
	var ready []int
	for i, st := range in.States {
		ch, _ := e.get(f, st.Chan).(*ChanV)
		chans[i] = ch
		if st.Dir == types.RecvOnly {
			if e.chanRecvReady(ch) {
				ready = append(ready, i)
			}
		} else if e.chanSendReady(ch) {
			ready = append(ready, i)
		}
	}
	if len(ready) > 0 {
		k := 0
		if len(ready) > 1 {
			k = e.pick(len(ready), "select")
		}
		i := ready[k]
		e.noteSelect(in, i, ready)
		st := in.States[i]
		if st.Dir == types.RecvOnly {
			v, ok := e.doRecv(g, chans[i])
			mk(i, ok, i, v)
			return true
		}
		if !e.doSend(g, chans[i], e.get(f, st.Send)) {
			return false
		}
		mk(i, false, -1, nil)
		return true
	}
	if !in.Blocking {
		mk(-1, false, -1, nil)
		return true
	}
	sg := &selGroup{}
	for i, st := range in.States {
		if chans[i] == nil {
			continue
		}
		w := &waiter{g: g, group: sg, caseIx: i, ch: chans[i]}
		if st.Dir == types.SendOnly {
			w.isSend = true
			w.val = e.get(f, st.Send)
		}
		e.waiters[chans[i]] = append(e.waiters[chans[i]], w)
	}
	g.waitSel = sg
	e.block(g, "select in "+f.fn.String())
	return false
}

func (e *Exec) noteSelect(in *ssa.Select, chosen int, ready []int) {}

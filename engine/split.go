package main

// Harness files are staged one top-level declaration per file, so that a declaration that stops
// type-checking against a changed tree (an internal symbol was renamed or removed) takes with it
// only what depends on it, not every harness that happens to share its source file.

import (
	"fmt"
	"go/ast"
	"go/parser"
	"go/token"
	"path"
	"regexp"
	"strconv"
	"strings"
)

// stagedDecl: staged file (relative path) -> name of the declaration it holds
var stagedDecl = map[string]string{}

var majorVerRe = regexp.MustCompile(`^v[0-9]+$`)

func assumedImportName(p string) string {
	base := path.Base(p)
	if majorVerRe.MatchString(base) {
		base = path.Base(path.Dir(p))
	}
	if i := strings.Index(base, ".v"); i > 0 { // gopkg.in/yaml.v3
		base = base[:i]
	}
	base = strings.TrimPrefix(base, "go-")
	return base
}

type splitFile struct {
	name string // file name
	decl string
	src  []byte
}

// splitHarnessFile cuts one harness source file into one file per top-level declaration, each
// with the package clause and exactly the imports it uses.
func splitHarnessFile(fileName string, src []byte) ([]splitFile, error) {
	fset := token.NewFileSet()
	af, err := parser.ParseFile(fset, fileName, src, parser.ParseComments)
	if err != nil {
		return nil, err
	}
	type imp struct{ local, text string }
	var imps []imp
	for _, is := range af.Imports {
		p, _ := strconv.Unquote(is.Path.Value)
		local := assumedImportName(p)
		text := is.Path.Value
		if is.Name != nil {
			local = is.Name.Name
			text = is.Name.Name + " " + is.Path.Value
		}
		imps = append(imps, imp{local, text})
	}
	off := func(p token.Pos) int { return fset.Position(p).Offset }
	stem := strings.TrimSuffix(fileName, ".go")
	var out []splitFile
	n := 0
	for _, d := range af.Decls {
		var name string
		start := d.Pos()
		switch d := d.(type) {
		case *ast.GenDecl:
			if d.Tok == token.IMPORT {
				continue
			}
			if d.Doc != nil {
				start = d.Doc.Pos()
			}
			if len(d.Specs) > 0 {
				switch s := d.Specs[0].(type) {
				case *ast.TypeSpec:
					name = s.Name.Name
				case *ast.ValueSpec:
					name = s.Names[0].Name
				}
			}
		case *ast.FuncDecl:
			if d.Doc != nil {
				start = d.Doc.Pos()
			}
			name = d.Name.Name
			if d.Recv != nil && len(d.Recv.List) > 0 {
				t := d.Recv.List[0].Type
				if st, ok := t.(*ast.StarExpr); ok {
					t = st.X
				}
				if id, ok := t.(*ast.Ident); ok {
					name = id.Name + "." + name
				}
			}
		}
		used := map[string]bool{}
		ast.Inspect(d, func(nd ast.Node) bool {
			if se, ok := nd.(*ast.SelectorExpr); ok {
				if id, ok := se.X.(*ast.Ident); ok && id.Obj == nil {
					used[id.Name] = true
				}
			}
			return true
		})
		var b strings.Builder
		fmt.Fprintf(&b, "package %s\n\n", af.Name.Name)
		for _, im := range imps {
			if im.local == "_" || used[im.local] {
				fmt.Fprintf(&b, "import %s\n", im.text)
			}
		}
		b.WriteString("\n")
		b.Write(src[off(start):off(d.End())])
		b.WriteString("\n")
		n++
		clean := strings.NewReplacer(".", "_", "*", "").Replace(name)
		if clean == "_" || clean == "" {
			clean = "blank"
		}
		out = append(out, splitFile{name: fmt.Sprintf("%s__%03d_%s.go", stem, n, clean), decl: name, src: []byte(b.String())})
	}
	return out, nil
}

package main

// Recording-sink model of github.com/prometheus/client_golang/prometheus.

import (
	"fmt"
	"go/types"
	"net"
	"strconv"
	"strings"
)

const promPkg = "github.com/prometheus/client_golang/prometheus"

type vecInfo struct {
	id      int
	parent  *vecInfo
	name    string
	kind    string // counter, histogram, gauge
	labels  []string
	curried map[string]*StrV
}

type metricInfo struct {
	vec  *vecInfo
	lvs  map[string]*StrV
	kind string
}

func (v *vecInfo) root() *vecInfo {
	for v.parent != nil {
		v = v.parent
	}
	return v
}

type sinkEvent struct {
	vecID  int
	metric string
	op     string
	names  []string
	lvs    map[string]*StrV
	f      *FloatV
}

type promState struct {
	vecs    map[*Cell]*vecInfo
	metrics map[*Cell]*metricInfo
}

func (e *Exec) promSt() *promState {
	if v, ok := e.userState["prom"]; ok {
		return v.(*promState)
	}
	ps := &promState{vecs: map[*Cell]*vecInfo{}, metrics: map[*Cell]*metricInfo{}}
	e.userState["prom"] = ps
	return ps
}

func (e *Exec) structField(v *StructV, t types.Type, name string) Value {
	st := t.Underlying().(*types.Struct)
	for i := 0; i < st.NumFields(); i++ {
		if st.Field(i).Name() == name {
			return v.F[i]
		}
	}
	panic("no field " + name)
}

func (e *Exec) optsName(opts Value, t types.Type) string {
	sv := opts.(*StructV)
	get := func(n string) string {
		s := e.structField(sv, t, n).(*StrV)
		if s.Kind != SConc {
			panic(unsupported{"symbolic metric name"})
		}
		return s.S
	}
	ns, sub, name := get("Namespace"), get("Subsystem"), get("Name")
	out := name
	if sub != "" {
		out = sub + "_" + out
	}
	if ns != "" {
		out = ns + "_" + out
	}
	return out
}

func (e *Exec) stringSlice(v Value) []string {
	s := v.(SliceV)
	var out []string
	for _, x := range e.sliceToValues(s) {
		sv := x.(*StrV)
		if sv.Kind != SConc {
			panic(unsupported{"symbolic label name"})
		}
		out = append(out, sv.S)
	}
	return out
}

func registerProm(p *Program) {
	mkVec := func(kind, typ, optT string) intrinsicFn {
		return func(e *Exec, g *G, a []Value) Value {
			ps := e.promSt()
			t := e.prog.namedType(promPkg, typ)
			c := e.newCell(t)
			ot := e.prog.namedType(promPkg, optT)
			e.nextID++
			ps.vecs[c] = &vecInfo{id: e.nextID, name: e.optsName(a[0], ot), kind: kind, labels: e.stringSlice(a[1]), curried: map[string]*StrV{}}
			return PtrV{C: c}
		}
	}
	p.reg(promPkg+".NewCounterVec", mkVec("counter", "CounterVec", "CounterOpts"))
	p.reg(promPkg+".NewHistogramVec", mkVec("histogram", "HistogramVec", "HistogramOpts"))
	p.reg(promPkg+".NewGaugeVec", mkVec("gauge", "GaugeVec", "GaugeOpts"))
	mkScalar := func(kind, typ, optT string) intrinsicFn {
		return func(e *Exec, g *G, a []Value) Value {
			ps := e.promSt()
			t := types.NewPointer(e.prog.namedType(promPkg, typ))
			c := e.newCell(t.Elem())
			ot := e.prog.namedType(promPkg, optT)
			e.nextID++
			vi := &vecInfo{id: e.nextID, name: e.optsName(a[0], ot), kind: kind}
			ps.metrics[c] = &metricInfo{vec: vi, lvs: map[string]*StrV{}, kind: kind}
			return IfaceV{T: t, V: PtrV{C: c}}
		}
	}
	p.reg(promPkg+".NewCounter", mkScalar("counter", "counter", "CounterOpts"))
	p.reg(promPkg+".NewGauge", mkScalar("gauge", "gauge", "GaugeOpts"))

	curry := func(typ string, iface bool) intrinsicFn {
		return func(e *Exec, g *G, a []Value) Value {
			ps := e.promSt()
			vc := a[0].(PtrV).C
			vi := ps.vecs[vc]
			m := a[1].(*MapV)
			nv := &vecInfo{id: vi.id, parent: vi, name: vi.name, kind: vi.kind, labels: vi.labels, curried: map[string]*StrV{}}
			for k, v := range vi.curried {
				nv.curried[k] = v
			}
			for _, en := range m.E {
				k := en.K.(*StrV)
				if k.Kind != SConc {
					panic(unsupported{"symbolic curry label"})
				}
				found := false
				for _, l := range vi.labels {
					if l == k.S {
						found = true
					}
				}
				if !found {
					return TupleV{e.zeroOfRet(typ, iface), e.errValue("label name not found in variable labels")}
				}
				nv.curried[k.S] = en.V.(*StrV)
			}
			t := e.prog.namedType(promPkg, typ)
			c := e.newCell(t)
			ps.vecs[c] = nv
			if iface {
				return TupleV{IfaceV{T: types.NewPointer(t), V: PtrV{C: c}}, IfaceV{}}
			}
			return TupleV{PtrV{C: c}, IfaceV{}}
		}
	}
	p.reg("(*"+promPkg+".CounterVec).CurryWith", curry("CounterVec", false))
	p.reg("(*"+promPkg+".HistogramVec).CurryWith", curry("HistogramVec", true))

	with := func(mtyp string) intrinsicFn {
		return func(e *Exec, g *G, a []Value) Value {
			ps := e.promSt()
			vc := a[0].(PtrV)
			if vc.IsNil() {
				e.runtimePanic(g, "invalid memory address or nil pointer dereference (nil metric vector)")
				return panicked{}
			}
			vi := ps.vecs[vc.C]
			if vi == nil {
				panic(unsupported{"WithLabelValues on unknown vector"})
			}
			vals := e.sliceToValues(a[1].(SliceV))
			var free []string
			for _, l := range vi.labels {
				if _, ok := vi.curried[l]; !ok {
					free = append(free, l)
				}
			}
			if len(vals) != len(free) {
				msg := fmt.Sprintf("inconsistent label cardinality: expected %d label values but got %d in %s", len(free), len(vals), vi.name)
				e.raise(g, e.errValue(msg), "panic: "+msg, false)
				return panicked{}
			}
			lvs := map[string]*StrV{}
			for k, v := range vi.curried {
				lvs[k] = v
			}
			for i, l := range free {
				lvs[l] = vals[i].(*StrV)
			}
			t := types.NewPointer(e.prog.namedType(promPkg, mtyp))
			c := e.newCell(t.Elem())
			ps.metrics[c] = &metricInfo{vec: vi, lvs: lvs, kind: vi.kind}
			return IfaceV{T: t, V: PtrV{C: c}}
		}
	}
	p.reg("(*"+promPkg+".CounterVec).WithLabelValues", with("counter"))
	p.reg("(*"+promPkg+".HistogramVec).WithLabelValues", with("histogram"))
	p.reg("(*"+promPkg+".GaugeVec).WithLabelValues", with("gauge"))

	record := func(op string) intrinsicFn {
		return func(e *Exec, g *G, a []Value) Value {
			ps := e.promSt()
			mi := ps.metrics[a[0].(PtrV).C]
			if mi == nil {
				panic(unsupported{"metric op on unknown metric"})
			}
			var f *FloatV
			if len(a) > 1 {
				f = a[1].(*FloatV)
			} else {
				f = &FloatV{Known: true, F: 1}
			}
			if op == "add" && mi.kind == "counter" {
				// Counter.Add panics on negative values
				neg := e.floatNegative(f)
				if neg != nil && !neg.IsFalse() {
					if !e.check(g, e.tc.Not(neg), "counter cannot decrease in value") {
						return panicked{}
					}
				}
			}
			e.sinks = append(e.sinks, sinkEvent{vecID: mi.vec.root().id, metric: mi.vec.name, op: op, names: mi.vec.labels, lvs: mi.lvs, f: f})
			return nil
		}
	}
	p.reg("(*"+promPkg+".counter).Inc", record("inc"))
	p.reg("(*"+promPkg+".counter).Add", record("add"))
	p.reg("(*"+promPkg+".histogram).Observe", record("observe"))
	p.reg("(*"+promPkg+".gauge).Set", record("set"))
	p.reg("(*"+promPkg+".gauge).Inc", record("inc"))
	p.reg("(*"+promPkg+".gauge).Add", record("add"))
	noop := func(e *Exec, g *G, a []Value) Value { return nil }
	for _, t := range []string{"CounterVec", "HistogramVec", "GaugeVec", "MetricVec", "counter", "gauge", "histogram"} {
		p.reg("(*"+promPkg+"."+t+").Describe", noop)
		p.reg("(*"+promPkg+"."+t+").Collect", noop)
	}

	// counter read-back: sum of the recorded deltas of one child
	sumEvents := func(e *Exec, vi *vecInfo, want map[string]*StrV, unit string) *Term {
		tc := e.tc
		total := tc.Const(64, 0)
		for _, ev := range e.sinks {
			if ev.vecID != vi.id {
				continue
			}
			match := tc.Bool(true)
			for k, v := range want {
				lv, ok := ev.lvs[k]
				if !ok {
					match = tc.Bool(false)
					break
				}
				match = tc.And(match, e.strEq(lv, v))
			}
			if match.IsFalse() {
				continue
			}
			var d *Term
			switch ev.op {
			case "inc":
				d = tc.Const(64, 1)
			default:
				t, u := e.floatBaseInt(ev.f)
				switch {
				case unit == "ns" && (u == "int" || u == "const"):
					// a value fed in whole seconds, read back in nanoseconds
					t = tc.Bin(OMul, t, tc.Const(64, 1_000_000_000))
				case unit == "ns" && u != "ns" || unit == "int" && u != "int" && u != "const":
					panic(unsupported{"counter unit mismatch: " + u + " vs " + unit})
				}
				d = t
			}
			total = tc.Bin(OAdd, total, tc.Ite(match, d, tc.Const(64, 0)))
		}
		return total
	}
	p.reg("verif:verifCounterValue", func(e *Exec, g *G, a []Value) Value {
		ps := e.promSt()
		vi := ps.vecs[a[0].(PtrV).C]
		if vi == nil {
			panic(unsupported{"verifCounterValue on unknown vector"})
		}
		unit := strArg(a[1])
		vals := e.sliceToValues(a[2].(SliceV))
		var free []string
		for _, l := range vi.labels {
			if _, ok := vi.curried[l]; !ok {
				free = append(free, l)
			}
		}
		if len(vals) != len(free) {
			panic(unsupported{"verifCounterValue label arity"})
		}
		want := map[string]*StrV{}
		for k, v := range vi.curried {
			want[k] = v
		}
		for i, l := range free {
			want[l] = vals[i].(*StrV)
		}
		return sumEvents(e, vi.root(), want, unit)
	})
	p.reg("verif:verifCounterScalar", func(e *Exec, g *G, a []Value) Value {
		ps := e.promSt()
		mi := ps.metrics[a[0].(IfaceV).V.(PtrV).C]
		return sumEvents(e, mi.vec.root(), map[string]*StrV{}, "int")
	})
	p.reg("verif:verifAllLabelValues", func(e *Exec, g *G, a []Value) Value {
		var vals []Value
		for _, ev := range e.sinks {
			vals = append(vals, concStr(ev.metric))
			for _, n := range ev.names {
				vals = append(vals, concStr(n), ev.lvs[n])
			}
		}
		st := types.Typ[types.String]
		sl := e.makeSlice(st, e.tc.Const(64, uint64(len(vals))), len(vals))
		for i, v := range vals {
			e.store(sl.G.E[i], v)
		}
		return sl
	})
	// every numeric sample exported so far (the integer each value derives from)
	p.reg("verif:verifAllValues", func(e *Exec, g *G, a []Value) Value {
		var vals []Value
		for _, ev := range e.sinks {
			if ev.op == "inc" {
				vals = append(vals, e.tc.Const(64, 1))
				continue
			}
			t, _ := e.floatBaseInt(ev.f)
			vals = append(vals, t)
		}
		it := types.Typ[types.Int64]
		sl := e.makeSlice(it, e.tc.Const(64, uint64(len(vals))), len(vals))
		for i, v := range vals {
			sl.A.ov[i] = v.(*Term)
		}
		return sl
	})
	p.reg("verif:verifLabelLeaksAddr", func(e *Exec, g *G, a []Value) Value {
		s := a[0].(*StrV)
		switch s.Kind {
		case SConc:
			// concrete text: does it contain the address's IP or port text?
			if len(a) > 1 {
				if iv, ok := a[1].(IfaceV); ok && iv.T != nil {
					if m := e.prog.lookupMethodByName(iv.T, nil, "String"); m != nil {
						if at, ok := e.callSync(m, []Value{iv.V}, nil).(*StrV); ok {
							host, port := "", ""
							switch at.Kind {
							case SConc:
								if h, p, err := net.SplitHostPort(at.S); err == nil {
									host, port = h, p
								}
							case SHostPort:
								if b, ok := concBytes(at.IP); ok && at.Port.IsConst() {
									ip := net.IP(b)
									if ip4 := ip.To4(); ip4 != nil {
										ip = ip4
									}
									host, port = ip.String(), strconv.Itoa(int(at.Port.Val))
								}
							}
							if (host != "" && strings.Contains(s.S, host)) || (len(port) >= 4 && strings.Contains(s.S, port)) {
								return e.tc.Bool(true)
							}
						}
					}
				}
			}
			return e.tc.Bool(false)
		case SHostPort, SIPText:
			return e.tc.Bool(true)
		case SPortText:
			return e.tc.Bool(!s.Port.IsConst())
		case SBytes:
			return e.tc.Bool(true)
		case SOpaque:
			return e.tc.Bool(true) // text of unknown origin in a label: treat as a leak candidate
		}
		return e.tc.Bool(false)
	})
	// harness access to the sink log
	p.reg("verif:verifSinkN", func(e *Exec, g *G, a []Value) Value { return e.tc.Const(64, uint64(len(e.sinks))) })
	p.reg("verif:verifSinkMetric", func(e *Exec, g *G, a []Value) Value {
		return concStr(e.sinks[int(a[0].(*Term).Val)].metric)
	})
	p.reg("verif:verifSinkOp", func(e *Exec, g *G, a []Value) Value {
		return concStr(e.sinks[int(a[0].(*Term).Val)].op)
	})
	p.reg("verif:verifSinkLabel", func(e *Exec, g *G, a []Value) Value {
		ev := e.sinks[int(a[0].(*Term).Val)]
		if v, ok := ev.lvs[strArg(a[1])]; ok {
			return v
		}
		return concStr("\x00absent")
	})
	p.reg("verif:verifSinkLabelNames", func(e *Exec, g *G, a []Value) Value {
		ev := e.sinks[int(a[0].(*Term).Val)]
		s := ""
		for i, n := range ev.names {
			if i > 0 {
				s += ","
			}
			s += n
		}
		return concStr(s)
	})
	// the integer a sink value was derived from: nanoseconds for Duration.Seconds(), the integer
	// for float64(int); scaled products keep the underlying integer (scale reported separately)
	p.reg("verif:verifSinkInt", func(e *Exec, g *G, a []Value) Value {
		ev := e.sinks[int(a[0].(*Term).Val)]
		t, _ := e.floatBaseInt(ev.f)
		return t
	})
	p.reg("verif:verifSinkUnit", func(e *Exec, g *G, a []Value) Value {
		ev := e.sinks[int(a[0].(*Term).Val)]
		_, u := e.floatBaseInt(ev.f)
		return concStr(u)
	})
	p.reg("verif:verifSinkReset", func(e *Exec, g *G, a []Value) Value {
		e.sinks = nil
		return nil
	})
}

func (e *Exec) zeroOfRet(typ string, iface bool) Value {
	if iface {
		return IfaceV{}
	}
	return PtrV{}
}

// floatBaseInt returns the integer term a float expression is a monotone function of, and a unit tag.
func (e *Exec) floatBaseInt(f *FloatV) (*Term, string) {
	switch f.Op {
	case "secs":
		return f.T, "ns"
	case "ofint":
		return f.T, "int"
	case "mul":
		if f.B.Known && f.A.Op != "" {
			t, u := e.floatBaseInt(f.A)
			return t, fmt.Sprintf("%s*%g", u, f.B.F)
		}
		if f.A.Known && f.B.Op != "" {
			t, u := e.floatBaseInt(f.B)
			return t, fmt.Sprintf("%s*%g", u, f.A.F)
		}
	}
	if f.Known {
		return e.tc.Const(64, uint64(int64(f.F))), "const"
	}
	panic(unsupported{"sink value is not derived from an integer"})
}

// floatNegative returns the condition that f < 0 when f is a monotone image of an integer.
func (e *Exec) floatNegative(f *FloatV) *Term {
	if f.Known {
		return e.tc.Bool(f.F < 0)
	}
	switch f.Op {
	case "secs", "ofint":
		return e.tc.Cmp(OSLT, f.T, e.tc.Const(64, 0))
	case "mul":
		if f.B.Known && f.B.F > 0 {
			return e.floatNegative(f.A)
		}
		if f.A.Known && f.A.F > 0 {
			return e.floatNegative(f.B)
		}
	}
	return nil
}

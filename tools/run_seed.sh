#!/bin/bash
# usage: run_seed.sh <patch.diff> <tier> <prop> [<prop>...]
# Applies a seeded change to /repo, runs the given checks, and always restores /repo.
set -u
PATCH=$1; TIER=$2; shift 2
cd /repo && git diff --quiet || { echo "/repo not clean"; exit 2; }
git -C /repo apply "$PATCH" || { echo "patch does not apply"; exit 3; }
trap 'git -C /repo checkout -- . ; git -C /repo clean -fdq' EXIT
cd /verif
for P in "$@"; do
  OUT=$(./bin/gosmt check $P --tier $TIER 2>&1)
  RC=$?
  echo "--- $P exit=$RC"
  echo "$OUT" | grep "VIOLATION\|KNOWN-FINDING\|INCONCLUSIVE" | cut -c1-260
done

#!/bin/bash
# usage: seed_round.sh <prefix e.g. seed2> <pid> <X> <pkgdir> <check> [<check>...]
PFX=$1; PID=$2; X=$3; PKG=$4; shift 4
mkdir -p /tmp/r2log
( /verif/tools/validate_seed.sh /tmp/$PFX-$PID-out/$X $PKG > /tmp/r2log/$PID-$X.validate 2>&1 & )
echo "##### $PID-$X"
/verif/tools/run_seed.sh /tmp/$PFX-$PID-out/$X/patch.diff quick "$@" 2>&1 | grep -v "listen_vs_close_stream\|KNOWN-FINDING\|mixtures.all-calls" | cut -c1-210 | tail -6

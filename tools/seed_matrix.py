#!/usr/bin/env python3
"""Runs every stored seeded change against the quick check of its own property (scratch worktree,
never /repo itself) and records which harness assertions report it.
usage: seed_matrix.py [-j N] [-u] [id ...]     (-u: write caught_by into meta.json)"""
import json, os, re, subprocess, sys, concurrent.futures as cf
V = '/verif'
args = sys.argv[1:]
jobs, update = 4, False
while args and args[0].startswith('-'):
    if args[0] == '-j': jobs = int(args[1]); args = args[2:]
    elif args[0] == '-u': update = True; args = args[1:]
ids = args or sorted(os.listdir(V + '/seeded'))
def run(sid):
    meta = json.load(open(f'{V}/seeded/{sid}/meta.json'))
    if meta.get('retired'):
        return sid, meta, None, 0, ''  # no longer applies to /repo HEAD (see meta.json)
    prop = meta['property']
    out = subprocess.run([V + '/tools/run_seed_wt.sh', f'{V}/seeded/{sid}/patch.diff', 'quick', prop],
                         capture_output=True, text=True).stdout
    hits = sorted(set(re.findall(r'VIOLATION property=(\S+) replay=\S*/([^/]+?)-[0-9a-f]{8}\.json', out)))
    incon = len(re.findall(r'^INCONCLUSIVE', out, re.M))
    return sid, meta, hits, incon, out
res = {}
with cf.ThreadPoolExecutor(jobs) as ex:
    for sid, meta, hits, incon, out in ex.map(run, ids):
        if hits is None:
            print(f"{sid}: RETIRED ({meta['retired'][:60]}...)", flush=True)
            continue
        own = [h for p, h in hits if p == meta['property']]
        print(f"{sid}: {'CAUGHT' if own else 'MISSED'} {len(own)} violation(s), {incon} inconclusive: {', '.join(own[:3])}", flush=True)
        if update and own:
            meta['caught_by'] = f"{meta['property']}: " + ', '.join(own[:4])
            json.dump(meta, open(f'{V}/seeded/{sid}/meta.json', 'w'), indent=1)
        res[sid] = bool(own)
print('caught', sum(res.values()), 'of', len(res))

#!/bin/bash
# usage: validate_seed.sh <srcdir containing patch.diff + demo test(s)> <target pkg dir for demo, relative to repo>
# Confirms in a scratch worktree: patch applies, builds, existing tests still pass, demo fails with / passes without.
set -u
export GOFLAGS=-mod=mod GOPROXY=off GOSUMDB=off GOTOOLCHAIN=local
SRC=$1; PKG=$2
WT=$(mktemp -d /tmp/val-XXXXXX); rmdir $WT
git -C /repo worktree add -q $WT HEAD || exit 2
trap 'git -C /repo worktree remove --force $WT >/dev/null 2>&1' EXIT
cd $WT
for f in $SRC/*_test.go; do cp $f $WT/$PKG/; done
DEMOS=$(cd $SRC && ls *_test.go | sed 's/_test.go//' | tr '\n' ' ')
echo "== demo WITHOUT change"
timeout 300 go test -vet=off -count=1 -timeout 120s ./$PKG/ -run 'Seed|seed|Zz|ZZ' 2>&1 | tail -5
R0=${PIPESTATUS[0]}
git apply $SRC/patch.diff || { echo "PATCH DOES NOT APPLY"; exit 3; }
echo "== build"; go build ./... || { echo "BUILD FAILS"; exit 4; }
echo "== demo WITH change"
timeout 300 go test -vet=off -count=1 -timeout 120s ./$PKG/ -run 'Seed|seed|Zz|ZZ' 2>&1 | tail -8
R1=${PIPESTATUS[0]}
rm -f $WT/$PKG/*seed*_test.go $WT/$PKG/zz_seed* 2>/dev/null
for f in $SRC/*_test.go; do rm -f $WT/$PKG/$(basename $f); done
echo "== existing suite WITH change"
go test -vet=off -count=1 -timeout 25m ./... 2>&1 | grep -v "^ok\|no test files" | grep -v "TestIPInfoMap\|TestTestDataExists\|mmdb\|^---\|^===\|Error Trace\|Error:\|Test:\|^\s*$\|open ../third_party\|Received unexpected\|^FAIL$\|FAIL.*ipinfo" | head -20
echo "RESULT demo_without_exit=$R0 demo_with_exit=$R1"

#!/bin/bash
# usage: run_seed_wt.sh <patch.diff> <tier> <prop> [<prop>...]
# Like run_seed.sh but on a scratch worktree (VERIF_REPO), so several seeds can be tried at once
# and /repo is never touched.
set -u
PATCH=$1; TIER=$2; shift 2
WT=$(mktemp -d /tmp/rs-XXXXXX); rmdir $WT
git -C /repo worktree add -q $WT HEAD || exit 2
trap 'git -C /repo worktree remove --force $WT >/dev/null 2>&1' EXIT
git -C $WT apply "$PATCH" || { echo "patch does not apply"; exit 3; }
cd /verif
for P in "$@"; do
  OUT=$(VERIF_REPO=$WT ./bin/gosmt check $P --tier $TIER 2>&1)
  RC=$?
  echo "--- $P exit=$RC"
  echo "$OUT" | grep "VIOLATION\|KNOWN-FINDING\|INCONCLUSIVE" | cut -c1-260
done

#!/usr/bin/env python3
"""Regenerates the table of seeded changes in DESIGN.md (between the SEED-TABLE markers) from
seeded/*/meta.json."""
import json, os, re
V = '/verif'
rows = ['| change | round | needs to manifest | caught by | history |', '|---|---|---|---|---|']
for sid in sorted(os.listdir(V + '/seeded')):
    m = json.load(open(f'{V}/seeded/{sid}/meta.json'))
    esc = lambda s: str(s).replace('|', '\\|').replace('\n', ' ')
    rows.append(f"| {sid} | {m.get('round', 1)} | {esc(m['needs_to_manifest'])} | {esc(m['caught_by'])} | {esc(m['detection_history'])} |")
d = open(V + '/DESIGN.md').read()
b, e = '<!-- SEED-TABLE-BEGIN -->', '<!-- SEED-TABLE-END -->'
if b in d:
    d = d[:d.index(b) + len(b)] + '\n' + '\n'.join(rows) + '\n' + d[d.index(e):]
else:
    i = d.index('| change | needs to manifest | caught by | history |')
    d = d[:i] + b + '\n' + '\n'.join(rows) + '\n' + e + '\n'
open(V + '/DESIGN.md', 'w').write(d)
print(len(rows) - 2, 'rows')

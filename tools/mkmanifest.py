#!/usr/bin/env python3
# Regenerates /verif/MANIFEST.json from tools/checks.json (claimed checks) + properties.jsonl.
import json, os
V = '/verif'
props = [json.loads(l) for l in open(f'{V}/properties.jsonl')]
checks = json.load(open(f'{V}/tools/checks.json'))
fix_commits = checks.get('_fix_commits', [])
claimed = {k: v for k, v in checks.items() if not k.startswith('_')}
m = {
 "version": 1,
 "setup_cmd": "cd /verif/engine && GOFLAGS=-mod=mod GOPROXY=off GOSUMDB=off GOTOOLCHAIN=local go build -o /verif/bin/gosmt .",
 "hooks": {"guard": "verif",
           "enable": "no build-tag hooks in /repo: harnesses and the verif API are injected with go/packages Overlay (symbolic run) and go test -overlay (native replay)",
           "baseline_off_cmd": "cd /repo && go test -json -vet=off -count=1 -timeout 25m ./...",
           "source_commits": [], "add_only": True},
 "engines": [{"name": "gosmt", "path": "/verif/engine", "serves_properties": sorted(claimed),
              "kind_free_text": "Go SSA (go/ssa, x/tools v0.29.0) -> SMT-LIB2 bounded symbolic executor with path forking by re-execution, z3 5.1.0 primary / z3 4.8.12 fallback, native replay of models via go test -overlay"}],
 "checks": [], "not_applicable": [],
 "notes": "fix: commits in /repo: " + ", ".join(fix_commits) + ". See DESIGN.md and known_findings.json.",
}
for p in props:
    pid = p['id']
    if pid in claimed:
        c = claimed[pid]
        m['checks'].append({
            "property_id": pid,
            "quick_cmd": f"./bin/gosmt check {pid} --tier quick",
            "thorough_cmd": f"./bin/gosmt check {pid} --tier thorough",
            "evidence_file": f"/verif/evidence/{pid}.json",
            "replay_cmd_template": "./bin/gosmt replay {path}",
            "engine": "gosmt",
            "level_claimed": {"category": "model_checking", "text": c['text'], "design_ref": c.get('design_ref', 'DESIGN.md §7 ' + pid)},
            "level_note": c['note'],
            "technique": c.get('technique', "bounded symbolic execution of the real Go code (go/ssa -> SMT-LIB2), every assertion / Go run-time check decided by z3 over the path condition; sat models replayed natively"),
        })
    else:
        m['not_applicable'].append({"property_id": pid, "reason": checks.get('_na', {}).get(pid, "check not built yet (engine exists; harness pending) — see DESIGN.md")})
json.dump(m, open(f'{V}/MANIFEST.json', 'w'), indent=1)
print("claimed:", sorted(claimed))
